package interp

import (
	"go/types"

	"golang.org/x/tools/go/ssa"

	"verif/engine/internal/term"
)

// Minimal reflect model: just what PeriodicalExecutor.hasTasks needs
// (reflect.ValueOf + Kind/Len/IsNil/IsValid on the result). A fuller model may
// live in intr_reflect.go; names already registered there are left alone.

func regIfAbsent(name string, f apiFn) {
	if _, ok := intrinsics[name]; !ok {
		reg(name, f)
	}
}

// reflectKind maps a static type to its reflect.Kind number.
func reflectKind(t types.Type) int {
	if t == nil {
		return 0
	}
	switch u := t.Underlying().(type) {
	case *types.Basic:
		switch u.Kind() {
		case types.Bool:
			return 1
		case types.Int:
			return 2
		case types.Int8:
			return 3
		case types.Int16:
			return 4
		case types.Int32:
			return 5
		case types.Int64:
			return 6
		case types.Uint:
			return 7
		case types.Uint8:
			return 8
		case types.Uint16:
			return 9
		case types.Uint32:
			return 10
		case types.Uint64:
			return 11
		case types.Uintptr:
			return 12
		case types.Float32:
			return 13
		case types.Float64:
			return 14
		case types.Complex64:
			return 15
		case types.Complex128:
			return 16
		case types.String:
			return 24
		case types.UnsafePointer:
			return 26
		}
	case *types.Array:
		return 17
	case *types.Chan:
		return 18
	case *types.Signature:
		return 19
	case *types.Interface:
		return 20
	case *types.Map:
		return 21
	case *types.Pointer:
		return 22
	case *types.Slice:
		return 23
	case *types.Struct:
		return 25
	}
	return -1
}

func init() {
	regIfAbsent("reflect.ValueOf", func(in *Interp, fn *ssa.Function, args []Value) Value {
		iv, ok := args[0].(Iface)
		if !ok || iv.T == nil {
			return ReflectV{}
		}
		return ReflectV{T: iv.T, V: iv.V, Valid: true}
	})
	rv := func(in *Interp, v Value, what string) ReflectV {
		r, ok := v.(ReflectV)
		if !ok {
			panic(in.inconclusive("reflect.Value.%s on a value not made by the minimal reflect model (%T)", what, v))
		}
		return r
	}
	regIfAbsent("(reflect.Value).IsValid", func(in *Interp, fn *ssa.Function, args []Value) Value {
		return term.BoolC(rv(in, args[0], "IsValid").Valid)
	})
	regIfAbsent("(reflect.Value).Kind", func(in *Interp, fn *ssa.Function, args []Value) Value {
		r := rv(in, args[0], "Kind")
		if !r.Valid {
			return term.BVC(64, 0)
		}
		k := reflectKind(r.T)
		if k < 0 {
			panic(in.inconclusive("reflect.Value.Kind of %s not modelled", r.T))
		}
		return term.BVC(64, uint64(k))
	})
	regIfAbsent("(reflect.Value).Len", func(in *Interp, fn *ssa.Function, args []Value) Value {
		r := rv(in, args[0], "Len")
		switch x := r.V.(type) {
		case Slice:
			return intC(len(x.Cells))
		case Str:
			return intC(len(x.B))
		case MapV:
			return intC(in.mapLen(x.M))
		case ChanV:
			if x.C == nil {
				return intC(0)
			}
			return intC(len(x.C.Buf))
		case ArrayV:
			return intC(len(x.E))
		}
		panic(in.inconclusive("reflect.Value.Len of %T not modelled", r.V))
	})
	regIfAbsent("(reflect.Value).IsNil", func(in *Interp, fn *ssa.Function, args []Value) Value {
		r := rv(in, args[0], "IsNil")
		switch r.V.(type) {
		case Slice, MapV, ChanV, Ptr, FuncV, Iface:
			return term.BoolC(in.isNilValue(r.V))
		}
		panic(in.inconclusive("reflect.Value.IsNil of %T not modelled", r.V))
	})
}
