package interp

import "go/types"

// net/http.NoBody: the empty request body (`var NoBody = noBody{}`), which the
// server gives every request without a body. net/http's init is not run, so
// the global's value (the zero struct) is provided here; its methods
// (Read: io.EOF, Close, WriteTo) run from net/http's own SSA when the harness
// lists "net/http" under "execute".
func init() {
	foreignGlobals["net/http.NoBody"] = func(in *Interp, elem types.Type) Value {
		return in.zero(elem)
	}
}
