package interp

import (
	"path/filepath"
	"strconv"
	"strings"

	"golang.org/x/tools/go/ssa"
)

// Schedule forking (harness.json "sched_fork": K, off by default).
//
// With K > 0 the deterministic scheduler's choices become forks of the path
// search: (1) when a goroutine blocks, yields or ends and several other
// non-yielding goroutines can run, each of them is tried; (2) before every
// synchronisation operation (sync.* and sync/atomic.* intrinsics, channel
// send/receive/close, select) executed by code under test, the running
// goroutine may be preempted in favour of another runnable non-yielding one.
// The default choice (index 0) is the deterministic scheduler's; at most K
// non-default choices are taken per path (CHESS-style preemption bound).
// Synchronisation operations issued directly by functions declared in harness
// files are not preemption points. Data stays symbolic;
// the schedules are enumerated by the engine's path forking. A counterexample
// found under a non-default schedule is generally not reproducible natively
// and is then reported INCONCLUSIVE by the replay stage.

func isSyncOpName(name string) bool {
	return strings.HasPrefix(name, "(*sync.") || strings.HasPrefix(name, "sync/atomic.") || strings.HasPrefix(name, "(*sync/atomic.")
}

// isHarnessFn: f is declared in a harness file (injected as zz_verif_*.go).
func (in *Interp) isHarnessFn(f *ssa.Function) bool {
	for f.Parent() != nil {
		f = f.Parent()
	}
	if !f.Pos().IsValid() {
		return false
	}
	return strings.HasPrefix(filepath.Base(in.Prog.Fset.Position(f.Pos()).Filename), "zz_verif_")
}

// others lists the non-yielding goroutines other than from that can run now.
func (in *Interp) others(from *G) []*G {
	var out []*G
	for _, g := range in.gs {
		if g != from && !g.yielding && g.runnable() {
			out = append(out, g)
		}
	}
	return out
}

// forkNext: from gives up the baton; def is the deterministic choice.
func (in *Interp) forkNext(from, def *G) *G {
	if in.schedForks >= in.Cfg.SchedFork || in.inInit > 0 {
		return def
	}
	c := in.others(from)
	if len(c) < 2 {
		return def
	}
	k := in.Eng.Choose(len(c), "sched")
	if k != 0 {
		in.schedForks++
		in.Eng.Tracef("sched: g%d gives way; g%d (%s) runs instead of g%d (%s)", gid(from), c[k].id, c[k].entry, def.id, def.entry)
	}
	return c[k]
}

// preemptPoint is called before a synchronisation operation takes effect.
func (in *Interp) preemptPoint(what string) {
	if in.Cfg.SchedFork <= 0 || in.cur == nil || in.inInit > 0 || in.schedForks >= in.Cfg.SchedFork {
		return
	}
	g := in.cur
	if g.fr != nil {
		if in.isHarnessFn(g.fr.fn) {
			return
		}
	}
	c := in.others(g)
	if len(c) == 0 {
		return
	}
	k := in.Eng.Choose(len(c)+1, "preempt")
	if k == 0 {
		return
	}
	in.schedForks++
	in.Eng.Tracef("preempt: g%d (%s) before %s%s\n    -> g%d (%s)", g.id, g.entry, what, in.whereShort(), c[k-1].id, c[k-1].entry)
	in.handoff(g, c[k-1])
}

func gid(g *G) int {
	if g == nil {
		return -1
	}
	return g.id
}

// whereShort: the innermost frames of the running goroutine (for schedule traces).
func (in *Interp) whereShort() string {
	if in.cur == nil || in.cur.fr == nil {
		return ""
	}
	var b strings.Builder
	for fr, n := in.cur.fr, 0; fr != nil && n < 3; fr, n = fr.caller, n+1 {
		pos := ""
		if fr.curInstr != nil {
			p := in.Prog.Fset.Position(fr.curInstr.Pos())
			pos = filepath.Base(p.Filename) + ":" + strconv.Itoa(p.Line)
		}
		b.WriteString(" < " + fr.fn.Name() + " " + pos)
	}
	return b.String()
}
