package interp

import (
	"crypto/sha1"
	"encoding/json"
	"fmt"
	"math"
	"os"
	"path/filepath"
	"runtime/debug"
	"sort"
	"strings"
	"time"

	"golang.org/x/tools/go/ssa"

	"verif/engine/internal/smt"
	"verif/engine/internal/term"
)

type decision struct {
	alts []int
	i    int
	tag  string
	n    int
}

type NondetRec struct {
	Name string `json:"name"`
	Kind string `json:"kind"` // "var" or "choose"
	Sort string `json:"sort,omitempty"`
	T    *term.Term `json:"-"`
	Val  int    `json:"val,omitempty"` // for choose
}

type Cex struct {
	Harness string                 `json:"harness"`
	Label   string                 `json:"label"`
	Site    string                 `json:"site"`
	Case    int                    `json:"case"`
	Params  map[string]int         `json:"params"`
	Values  map[string]interface{} `json:"values"`
	Order   []string               `json:"order"`
	Solver  string                 `json:"solver"`
	Trace   []string               `json:"trace,omitempty"`
	SchedForks int                 `json:"sched_forks,omitempty"` // non-default scheduling choices on the failing path
	File    string                 `json:"-"`
}

type Undecided struct {
	Label  string `json:"label"`
	Site   string `json:"site"`
	Script string `json:"script"`
	Why    string `json:"why"`
}

type Sample struct {
	Path      int      `json:"path"`
	Decisions []string `json:"decisions"`
	Vars      []string `json:"symbolic_vars"`
	PCSize    int      `json:"path_condition_conjuncts"`
	Asserts   []string `json:"assertions_discharged"`
}

type Options struct {
	Harness       string
	OutDir        string
	Case, Cases   int
	FeasTimeout   time.Duration
	PipeTimeout   time.Duration
	PortTimeout   time.Duration
	Backends      []string
	MaxPaths      int
	Deadline      time.Time
	MaxCexPerLbl  int
	Pin           map[string]interface{} // concrete replay inside the interpreter
	Verbose       bool
	Witnesses     int // number of completed paths whose model is written out for native validation
}

type Engine struct {
	Opt  Options
	in   *Interp
	pipe *smt.Pipe

	prefix []decision
	pos    int
	pc     []*term.Term
	pcSent int
	nondets []NondetRec
	nameCnt map[string]int
	caseUsed bool
	pathAsserts []string
	trace  []string
	abs    *absState
	pool   []*term.Evaluator
	PoolHits int

	// results
	Paths, Infeasible, Forks, MaxDepth int
	Obligations, Discharged, Trivial   int
	AbsDischarged                      int // discharged by the interval/order abstraction (subset of Discharged)
	PipeRestarts                       int // incremental solver discarded after an error line (late-timeout cancellation)
	Undecided     []Undecided
	Cexs          []*Cex
	cexPerLabel   map[string]int
	Reach         map[string]int
	Inconcl       map[string]int
	Samples       []Sample
	AssertLabels  map[string]int
	Budget        string
	Witnesses     []string
	scriptN       int
	proved        map[[20]byte]bool // obligations already answered unsat (key: assertion + path condition)
}

func NewEngine(opt Options) (*Engine, error) {
	p, err := smt.NewPipe("QF_UFBV")
	if err != nil {
		return nil, err
	}
	if opt.MaxCexPerLbl == 0 {
		opt.MaxCexPerLbl = 1
	}
	e := &Engine{Opt: opt, pipe: p, Reach: map[string]int{}, Inconcl: map[string]int{}, cexPerLabel: map[string]int{}, AssertLabels: map[string]int{}}
	return e, nil
}

func (e *Engine) Close() { e.pipe.Close() }

func (e *Engine) startPath() {
	e.pos = 0
	e.pc = e.pc[:0]
	e.pcSent = 0
	e.nondets = e.nondets[:0]
	e.nameCnt = map[string]int{}
	e.caseUsed = false
	e.pathAsserts = nil
	e.trace = nil
	e.abs = newAbs()
	if e.pipe.Corrupt {
		e.restartPipe(e.pipe.Logic)
	}
	e.pipe.PopAll()
	e.pipe.Push()
	if e.pipe.Queries() > 4000 {
		// restart the solver now and then to bound its memory
		e.restartPipe(e.pipe.Logic)
	}
}

func (e *Engine) restartPipe(logic string) {
	e.pipe.Close()
	p, err := smt.NewPipe(logic)
	if err != nil {
		panic(err)
	}
	e.pipe = p
	e.pipe.Push()
	e.pcSent = 0
}

// needFP switches the pipe to the unrestricted logic once a floating-point
// term shows up (QF_UFBV is much faster for pure bit-vector paths).
func (e *Engine) needFP(t *term.Term) {
	if e.pipe.Logic != "" && term.HasFP(t) {
		e.restartPipe("")
	}
}

func (e *Engine) sync() {
	for i := e.pcSent; i < len(e.pc); i++ {
		e.needFP(e.pc[i])
	}
	for ; e.pcSent < len(e.pc); e.pcSent++ {
		e.pipe.Assert(e.pc[e.pcSent])
	}
}

func (e *Engine) addPC(c *term.Term) {
	if c.IsTrue() {
		return
	}
	e.pc = append(e.pc, c)
	e.abs.learn(c)
	e.abs.ord.learn(c)
}

// feasible: pc ∧ c satisfiable? Unknown counts as feasible (sound: final
// obligations carry the full path condition).
func (e *Engine) feasible(c *term.Term) bool {
	if c.IsFalse() {
		return false
	}
	// counterexample cache: a recent model that satisfies pc ∧ c settles it
	for i := len(e.pool) - 1; i >= 0; i-- {
		if e.modelSatisfies(e.pool[i], c) {
			e.PoolHits++
			if i != len(e.pool)-1 {
				ev := e.pool[i]
				copy(e.pool[i:], e.pool[i+1:])
				e.pool[len(e.pool)-1] = ev
			}
			return true
		}
	}
	r, m := e.pipeQuery(c, e.Opt.FeasTimeout, true)
	if r == smt.Sat && m != nil {
		e.addModel(m)
	}
	return r != smt.Unsat
}

// pipeQuery decides pc && c on the incremental solver (c == nil: pc alone).
// If the pipe reports an error at any point (see smt.Pipe.Check: a late
// timeout can cancel a push/pop/assert and corrupt the assertion stack), the
// solver is restarted, the path condition re-asserted and the query repeated;
// an answer is only ever taken from a pipe that has shown no error.
func (e *Engine) pipeQuery(c *term.Term, timeout time.Duration, wantModel bool) (smt.Result, map[string]smt.ModelVal) {
	for attempt := 0; attempt < 3; attempt++ {
		if c != nil && e.pipe.Logic != "" && term.HasFP(c) {
			e.restartPipe("")
		}
		e.sync()
		e.pipe.Push()
		if c != nil && !c.IsTrue() {
			e.pipe.Assert(c)
		}
		r := e.pipe.Check(timeout)
		var m map[string]smt.ModelVal
		if r == smt.Sat && wantModel {
			if mm, err := e.pipe.Model(e.vars()); err == nil {
				m = mm
			} else if !e.pipe.Corrupt {
				// sat without a readable model: callers that need one treat it as unknown
				e.pipe.Pop()
				return smt.Sat, nil
			}
		}
		e.pipe.Pop()
		if !e.pipe.Corrupt {
			return r, m
		}
		e.PipeRestarts++
		e.restartPipe(e.pipe.Logic)
	}
	return smt.Unknown, nil
}

// enumerateFeasible finds the feasible alternatives of a many-way fork with
// (#feasible + 1) solver calls: ask for a model of pc ∧ (one of the remaining
// alternatives), see which alternative the model satisfies, exclude it, repeat.
func (e *Engine) enumerateFeasible(alts []*term.Term, cand []int) []int {
	remaining := append([]int{}, cand...)
	var feas []int
	take := func(k int) {
		feas = append(feas, remaining[k])
		remaining = append(remaining[:k], remaining[k+1:]...)
	}
	for len(remaining) > 0 {
		hit := -1
		for i := len(e.pool) - 1; i >= 0 && hit < 0; i-- {
			for k, a := range remaining {
				if e.modelSatisfies(e.pool[i], alts[a]) {
					hit = k
					e.PoolHits++
					break
				}
			}
		}
		if hit >= 0 {
			take(hit)
			continue
		}
		var rs []*term.Term
		for _, a := range remaining {
			rs = append(rs, alts[a])
		}
		disj := term.Or(rs...)
		r, m := e.pipeQuery(disj, e.Opt.FeasTimeout, true)
		var ev *term.Evaluator
		if r == smt.Sat && m != nil {
			e.addModel(m)
			ev = e.pool[len(e.pool)-1]
		}
		if r == smt.Unsat {
			break
		}
		found := -1
		if ev != nil {
			for k, a := range remaining {
				if v, ok := ev.Eval(alts[a]); ok && v.U != 0 {
					found = k
					break
				}
			}
		}
		if found < 0 {
			// unknown, or a model we cannot evaluate: decide the rest one by one
			for _, a := range remaining {
				if e.feasible(alts[a]) {
					feas = append(feas, a)
				}
			}
			break
		}
		take(found)
	}
	sort.Ints(feas)
	return feas
}

func (e *Engine) addModel(m map[string]smt.ModelVal) {
	vars := map[string]term.Val{}
	for name, mv := range m {
		vars[name] = term.Val{U: mv.U, F: mv.F}
	}
	e.pool = append(e.pool, term.NewEvaluator(vars))
	if len(e.pool) > 12 {
		e.pool = e.pool[1:]
	}
}

func (e *Engine) modelSatisfies(ev *term.Evaluator, c *term.Term) bool {
	v, ok := ev.Eval(c)
	if !ok || v.U == 0 {
		return false
	}
	for i := len(e.pc) - 1; i >= 0; i-- {
		v, ok := ev.Eval(e.pc[i])
		if !ok || v.U == 0 {
			return false
		}
	}
	return true
}

func (e *Engine) Branch(c *term.Term) bool {
	switch e.abs.abool(c) {
	case 1:
		return true
	case -1:
		return false
	}
	return e.Fork([]*term.Term{c, term.Not(c)}, "br") == 0
}

// Fork chooses among mutually exclusive, jointly exhaustive alternatives.
func (e *Engine) Fork(alts []*term.Term, tag string) int {
	var cand []int
	for i, a := range alts {
		switch e.abs.abool(a) {
		case 1:
			return i
		case 0:
			cand = append(cand, i)
		}
	}
	if len(cand) == 0 {
		panic(pathAbort{"infeasible", "fork with no alternatives"})
	}
	if len(cand) == 1 {
		return cand[0]
	}
	if e.pos < len(e.prefix) {
		d := e.prefix[e.pos]
		if d.tag != tag || d.n != len(alts) {
			panic(engineBug{fmt.Sprintf("replay divergence at decision %d: recorded %s/%d, now %s/%d", e.pos, d.tag, d.n, tag, len(alts))})
		}
		e.pos++
		k := d.alts[d.i]
		e.addPC(alts[k])
		return k
	}
	// frontier
	var feas []int
	if len(cand) > 3 {
		feas = e.enumerateFeasible(alts, cand)
	} else {
		for j, i := range cand {
			if j == len(cand)-1 && len(feas) == 0 {
				feas = append(feas, i) // pc is feasible and all others are not
				break
			}
			if e.feasible(alts[i]) {
				feas = append(feas, i)
			}
		}
	}
	if len(feas) == 0 {
		panic(pathAbort{"infeasible", "no feasible alternative"})
	}
	e.Forks++
	e.prefix = append(e.prefix, decision{alts: feas, tag: tag, n: len(alts)})
	e.pos++
	if len(e.prefix) > e.MaxDepth {
		e.MaxDepth = len(e.prefix)
	}
	e.addPC(alts[feas[0]])
	return feas[0]
}

// Choose is an explicit n-way fork without conditions.
func (e *Engine) Choose(n int, tag string) int {
	if n <= 1 {
		return 0
	}
	tag = "ch:" + tag
	if e.pos < len(e.prefix) {
		d := e.prefix[e.pos]
		if d.tag != tag || d.n != n {
			panic(engineBug{fmt.Sprintf("replay divergence at decision %d: recorded %s/%d, now %s/%d", e.pos, d.tag, d.n, tag, n)})
		}
		e.pos++
		return d.alts[d.i]
	}
	all := make([]int, n)
	for i := range all {
		all[i] = i
	}
	e.Forks++
	e.prefix = append(e.prefix, decision{alts: all, tag: tag, n: n})
	e.pos++
	if len(e.prefix) > e.MaxDepth {
		e.MaxDepth = len(e.prefix)
	}
	return 0
}

func (e *Engine) Assume(c *term.Term) {
	if c.IsTrue() {
		return
	}
	if c.IsFalse() {
		panic(pathAbort{"infeasible", "assume(false)"})
	}
	if e.pos < len(e.prefix) {
		d := e.prefix[e.pos]
		if d.tag != "assume" {
			panic(engineBug{fmt.Sprintf("replay divergence at decision %d: recorded %s, now assume", e.pos, d.tag)})
		}
		e.pos++
		e.addPC(c)
		return
	}
	if !e.feasible(c) {
		panic(pathAbort{"infeasible", "assumption unsatisfiable"})
	}
	e.prefix = append(e.prefix, decision{alts: []int{0}, tag: "assume", n: 1})
	e.pos++
	e.addPC(c)
}

const smallMax = 8

func (e *Engine) ConcretizeSmall(t *term.Term, what string) int {
	alts := make([]*term.Term, smallMax+2)
	var ins []*term.Term
	for i := 0; i <= smallMax; i++ {
		alts[i] = term.Eq(t, term.BVC(t.Sort.W, uint64(i)))
		ins = append(ins, alts[i])
	}
	alts[smallMax+1] = term.Not(term.Or(ins...))
	k := e.Fork(alts, "small")
	if k == smallMax+1 {
		panic(e.in.inconclusive("%s: symbolic length outside 0..%d (or negative)", what, smallMax))
	}
	return k
}

func sortName(s term.Sort) string {
	switch s.K {
	case term.KBool:
		return "bool"
	case term.KBV:
		return fmt.Sprintf("bv%d", s.W)
	}
	return fmt.Sprintf("f%d", s.W)
}

func (e *Engine) uniqueName(name string) string {
	e.nameCnt[name]++
	if n := e.nameCnt[name]; n > 1 {
		return fmt.Sprintf("%s#%d", name, n)
	}
	return name
}

func (e *Engine) Fresh(name string, s term.Sort) *term.Term {
	un := e.uniqueName(name)
	if e.Opt.Pin != nil {
		if v, ok := e.Opt.Pin[un]; ok {
			return pinTerm(v, s)
		}
	}
	t := term.Var(un+":"+sortName(s), s)
	e.nondets = append(e.nondets, NondetRec{Name: un, Kind: "var", Sort: sortName(s), T: t})
	return t
}

func pinTerm(v interface{}, s term.Sort) *term.Term {
	switch s.K {
	case term.KBool:
		b, _ := v.(bool)
		return term.BoolC(b)
	case term.KBV:
		switch x := v.(type) {
		case float64:
			return term.BVC(s.W, uint64(int64(x)))
		case string:
			var u uint64
			fmt.Sscan(x, &u)
			return term.BVC(s.W, u)
		}
	case term.KFP:
		switch x := v.(type) {
		case float64:
			return term.FC(s.W, x)
		case string:
			var u uint64
			fmt.Sscan(x, &u)
			return term.FC(s.W, math.Float64frombits(u))
		}
	}
	panic(fmt.Sprintf("pin: bad value %v for sort %v", v, s))
}

// NamedChoose is Choose recorded as a named nondet (for replay).
func (e *Engine) NamedChoose(name string, n int) int {
	un := e.uniqueName(name)
	var k int
	if e.Opt.Pin != nil {
		if v, ok := e.Opt.Pin[un]; ok {
			k = int(v.(float64))
			e.nondets = append(e.nondets, NondetRec{Name: un, Kind: "choose", Val: k})
			return k
		}
	}
	k = e.Choose(n, name)
	e.nondets = append(e.nondets, NondetRec{Name: un, Kind: "choose", Val: k})
	return k
}

func (e *Engine) site() string {
	in := e.in
	if in.cur == nil {
		return ""
	}
	for fr := in.cur.fr; fr != nil; fr = fr.caller {
		if fr.fn.Pkg == in.harnessPkg && fr.curInstr != nil && fr.curInstr.Pos().IsValid() {
			p := in.Prog.Fset.Position(fr.curInstr.Pos())
			return fmt.Sprintf("%s:%d", filepath.Base(p.Filename), p.Line)
		}
	}
	return ""
}

func (e *Engine) vars() []*term.Term {
	var vs []*term.Term
	for _, n := range e.nondets {
		if n.Kind == "var" {
			vs = append(vs, n.T)
		}
	}
	return vs
}

func (e *Engine) writeScript(asserts []*term.Term, label string) string {
	e.scriptN++
	os.MkdirAll(e.Opt.OutDir, 0o755)
	h := sha1.Sum([]byte(fmt.Sprintf("%s-%d-%d", label, e.Opt.Case, e.scriptN)))
	f := filepath.Join(e.Opt.OutDir, fmt.Sprintf("%s-c%d-%x.smt2", e.Opt.Harness, e.Opt.Case, h[:6]))
	os.WriteFile(f, []byte(smt.Script(asserts, e.vars())), 0o644)
	return f
}

func (e *Engine) mkCex(label, site, solver string, model map[string]smt.ModelVal) *Cex {
	c := &Cex{Harness: e.Opt.Harness, Label: label, Site: site, Case: e.Opt.Case, Params: e.in.Cfg.Params, Values: map[string]interface{}{}, Solver: solver, Trace: e.trace, SchedForks: e.in.schedForks}
	for _, n := range e.nondets {
		c.Order = append(c.Order, n.Name)
		if n.Kind == "choose" {
			c.Values[n.Name] = n.Val
			continue
		}
		mv, ok := model[n.T.Name]
		if !ok {
			mv = smt.ModelVal{Sort: n.T.Sort}
		}
		switch n.T.Sort.K {
		case term.KBool:
			c.Values[n.Name] = mv.U != 0
		case term.KBV:
			c.Values[n.Name] = fmt.Sprint(mv.U) // decimal string of the unsigned bit pattern
		case term.KFP:
			c.Values[n.Name] = fmt.Sprintf("f:%d", math.Float64bits(mv.F))
		}
	}
	return c
}

func (e *Engine) recordCex(c *Cex) {
	if e.cexPerLabel[c.Label] >= e.Opt.MaxCexPerLbl {
		return
	}
	e.cexPerLabel[c.Label]++
	os.MkdirAll(e.Opt.OutDir, 0o755)
	c.File = filepath.Join(e.Opt.OutDir, fmt.Sprintf("%s-c%d-cex%d.json", e.Opt.Harness, e.Opt.Case, len(e.Cexs)))
	b, _ := json.MarshalIndent(c, "", " ")
	os.WriteFile(c.File, b, 0o644)
	e.Cexs = append(e.Cexs, c)
}

// decide checks sat(pc ∧ extra): pipe first, then portfolio.
func (e *Engine) decide(extra *term.Term, label string) (smt.Result, map[string]smt.ModelVal, string, string) {
	r, m := e.pipeQuery(extra, e.Opt.PipeTimeout, true)
	if r == smt.Sat && m != nil {
		return smt.Sat, m, "z3new-pipe", ""
	}
	if r == smt.Unsat {
		return smt.Unsat, nil, "z3new-pipe", ""
	}
	as := append(append([]*term.Term{}, e.pc...), extra)
	file := e.writeScript(as, label)
	res := smt.Portfolio(file, e.Opt.Backends, e.Opt.PortTimeout, e.vars())
	switch res.Result {
	case smt.Sat:
		return smt.Sat, res.Model, res.Solver, file
	case smt.Unsat:
		os.Remove(file)
		return smt.Unsat, nil, res.Solver, ""
	}
	return res.Result, nil, res.Solver, file
}

func (e *Engine) Assert(c *term.Term, label string) {
	e.AssertLabels[label]++
	if c.IsTrue() {
		// decided by constant folding along this path: counted as a
		// discharged obligation, and separately as trivial
		e.Trivial++
		e.Obligations++
		e.Discharged++
		return
	}
	if e.abs.abool(c) == 1 {
		// implied by interval/order facts that are conjuncts of the path
		// condition (pc => c, so pc && !c is unsat): discharged without a solver call
		e.Obligations++
		e.Discharged++
		e.AbsDischarged++
		e.pathAsserts = append(e.pathAsserts, label)
		return
	}
	site := e.site()
	e.Obligations++
	// The DFS re-executes path prefixes, so the same obligation (same path
	// condition, same assertion: terms are hash-consed, ids are stable) comes
	// back on every path sharing the prefix; an identical query that was
	// answered unsat is not sent again.
	key := e.oblKey(c)
	if e.proved[key] {
		e.Discharged++
		e.pathAsserts = append(e.pathAsserts, label)
		return
	}
	r, model, solver, file := e.decide(term.Not(c), label)
	switch r {
	case smt.Unsat:
		if e.proved == nil {
			e.proved = map[[20]byte]bool{}
		}
		e.proved[key] = true
		e.Discharged++
		e.pathAsserts = append(e.pathAsserts, label)
		return
	case smt.Sat:
		e.recordCex(e.mkCex(label, site, solver, model))
		panic(pathAbort{"violation", label})
	default:
		e.Undecided = append(e.Undecided, Undecided{Label: label, Site: site, Script: file, Why: r.String() + " from " + solver})
		// continue the path under the asserted condition
		e.addPC(c)
	}
}

func (e *Engine) oblKey(c *term.Term) [20]byte {
	var b strings.Builder
	fmt.Fprintf(&b, "%d", c.ID)
	for _, p := range e.pc {
		fmt.Fprintf(&b, "|%d", p.ID)
	}
	return sha1.Sum([]byte(b.String()))
}

func (e *Engine) ReachTag(tag string) {
	if e.Reach[tag] > 0 {
		e.Reach[tag]++
		return
	}
	// first time: require a definite sat of the path condition
	r, _ := e.pipeQuery(nil, e.Opt.PipeTimeout, false)
	if r != smt.Sat && r != smt.Unsat {
		rr, _, _, f := e.decide(term.True, "reach:"+tag)
		r = rr
		if f != "" {
			os.Remove(f)
		}
	}
	if r == smt.Sat {
		e.Reach[tag]++
	}
}

func (e *Engine) Tracef(format string, a ...interface{}) {
	if len(e.trace) < 200 {
		e.trace = append(e.trace, fmt.Sprintf(format, a...))
	}
}

// failPath handles an unexpected end (panic, deadlock, leak): it is a
// violation iff the path condition is satisfiable.
func (e *Engine) failPath(label string) {
	site := ""
	r, model, solver, file := e.decide(term.True, label)
	switch r {
	case smt.Sat:
		e.Obligations++
		e.recordCex(e.mkCex(label, site, solver, model))
	case smt.Unsat:
		e.Infeasible++
	default:
		e.Obligations++
		e.Undecided = append(e.Undecided, Undecided{Label: label, Script: file, Why: r.String()})
	}
}

func shorten(s string, n int) string {
	if len(s) > n {
		return s[:n] + "…"
	}
	return s
}

func (e *Engine) endPath(res interface{}) {
	switch x := res.(type) {
	case nil:
		e.Paths++
		if len(e.Witnesses) < e.Opt.Witnesses && len(e.nondets) > 0 {
			if r, model, solver, f := e.decide(term.True, "witness"); r == smt.Sat {
				c := e.mkCex("witness", "", solver, model)
				os.MkdirAll(e.Opt.OutDir, 0o755)
				c.File = filepath.Join(e.Opt.OutDir, fmt.Sprintf("%s-c%d-witness%d.json", e.Opt.Harness, e.Opt.Case, len(e.Witnesses)))
				b, _ := json.MarshalIndent(c, "", " ")
				os.WriteFile(c.File, b, 0o644)
				e.Witnesses = append(e.Witnesses, c.File)
			} else if f != "" {
				os.Remove(f)
			}
		}
		if len(e.Samples) < 3 || (e.Paths%97 == 0 && len(e.Samples) < 6) {
			s := Sample{Path: e.Paths, PCSize: len(e.pc), Asserts: e.pathAsserts}
			for _, d := range e.prefix {
				s.Decisions = append(s.Decisions, fmt.Sprintf("%s:%d/%d", d.tag, d.alts[d.i], d.n))
			}
			for _, n := range e.nondets {
				if n.Kind == "var" {
					s.Vars = append(s.Vars, n.Name+":"+n.Sort)
				} else {
					s.Vars = append(s.Vars, fmt.Sprintf("%s=%d", n.Name, n.Val))
				}
			}
			if len(s.Decisions) > 40 {
				s.Decisions = append(s.Decisions[:40], "…")
			}
			if len(s.Vars) > 40 {
				s.Vars = append(s.Vars[:40], "…")
			}
			e.Samples = append(e.Samples, s)
		}
	case pathAbort:
		switch x.kind {
		case "infeasible":
			e.Infeasible++
		case "violation":
			e.Paths++
		case "done":
			e.Paths++
		case "inconclusive":
			e.Paths++
			e.Inconcl[shorten(x.reason, 1500)]++
		case "deadlock", "leak", "gopanic":
			e.Paths++
			e.failPath(shorten(x.kind+": "+x.reason, 300))
		default:
			e.Inconcl["abort: "+x.kind+": "+x.reason]++
		}
	case *GoPanic:
		e.Paths++
		msg := x.Msg
		if msg == "" {
			msg = e.in.showValue(x.V)
		}
		e.Tracef("panic stack:%s", x.Stack)
		e.failPath("unexpected panic: " + shorten(msg, 200))
	case goroutineCrash:
		e.Paths++
		e.Tracef("panic stack:%s", x.gp.Stack)
		e.failPath("unrecovered panic in goroutine: " + shorten(e.in.panicText(x.gp), 200))
	case engineBug:
		e.Paths++
		e.Inconcl["engine: "+shorten(x.msg, 1500)]++
	default:
		e.Paths++
		e.Inconcl[fmt.Sprintf("engine crash: %v\n%s", x, shorten(string(debug.Stack()), 3000))]++
	}
}

func (e *Engine) advance() bool {
	// drop decisions beyond where this path got (they were recorded on it)
	for len(e.prefix) > 0 {
		d := &e.prefix[len(e.prefix)-1]
		if d.i+1 < len(d.alts) {
			d.i++
			return true
		}
		e.prefix = e.prefix[:len(e.prefix)-1]
	}
	return false
}

// Explore runs the DFS over all paths of fn.
func (e *Engine) Explore(in *Interp, fn *ssa.Function) {
	e.in = in
	in.Eng = e
	for {
		in.resetPath()
		e.startPath()
		res := e.runOne(in, fn)
		// decisions recorded past e.pos cannot exist; truncate defensively
		if e.pos < len(e.prefix) {
			e.prefix = e.prefix[:e.pos]
		}
		e.endPath(res)
		if e.Opt.Verbose && e.Paths%200 == 0 {
			fmt.Fprintf(os.Stderr, "[%s c%d] paths=%d forks=%d obl=%d/%d\n", e.Opt.Harness, e.Opt.Case, e.Paths, e.Forks, e.Discharged, e.Obligations)
		}
		if !e.advance() {
			break
		}
		if e.Opt.MaxPaths > 0 && e.Paths >= e.Opt.MaxPaths {
			e.Budget = fmt.Sprintf("path budget %d exhausted", e.Opt.MaxPaths)
			break
		}
		if !e.Opt.Deadline.IsZero() && time.Now().After(e.Opt.Deadline) {
			e.Budget = "time budget exhausted"
			break
		}
	}
}

func (e *Engine) runOne(in *Interp, fn *ssa.Function) (res interface{}) {
	defer func() {
		if r := recover(); r != nil {
			res = fmt.Sprintf("%v\n%s", r, debug.Stack())
		}
	}()
	return in.RunMain(fn)
}

func (e *Engine) InconclusiveList() []string {
	var out []string
	for k, n := range e.Inconcl {
		out = append(out, fmt.Sprintf("%s (x%d)", k, n))
	}
	sort.Strings(out)
	if e.Budget != "" {
		out = append(out, e.Budget)
	}
	return out
}

var _ = strings.Join
