package interp

// A frozen clock for code that reads time.Now directly (standard library: no
// //verif:stub trampoline possible; native replay reads the real clock).
// Opt-in: "execute": ["clock:frozen"] in harness.json.
// Harnesses therefore must not depend on the absolute instant: they derive
// every time stamp they need from their own time.Now() reading, which makes
// the two worlds agree as long as the code's readings fall into the same
// second/day as the harness's. Time values are concrete {wall: nsec, ext:
// seconds since year 1, loc: nil (UTC)}; Add/Sub/Before/Nanosecond/... run
// from the time package's own SSA; Format is computed by the host.

import (
	"time"

	"golang.org/x/tools/go/ssa"

	"verif/engine/internal/term"
)

const fakeNowUnix = 1257894000 // 2009-11-10T23:00:00Z

const unixToInternal = (1969*365 + 1969/4 - 1969/100 + 1969/400) * 86400

func init() {
	reg("time.Now", func(in *Interp, fn *ssa.Function, args []Value) Value {
		frozen, symbolic, fresh := false, false, false
		if in.inInit == 0 && in.harnessPkg.Func("verifTimeNow") != nil {
			fresh = true
		}
		for _, e := range in.Cfg.Execute {
			if e == "clock:fresh" {
				fresh = true
			}
			if e == "clock:frozen" {
				frozen = true
			}
			if e == "clock:symbolic" {
				symbolic = true
			}
		}
		if in.inInit > 0 {
			// package initialisers (timex.initTime, ...) get a fixed instant
			frozen = true
		}
		if fresh && !frozen && in.inInit == 0 {
			return timeNowFresh(in, fn, args)
		}
		if symbolic && !frozen {
			// one symbolic instant per path: `now` seconds after the Unix epoch,
			// 0 <= now < 2^40, wall nanoseconds 0, UTC ("clock:symbolic")
			now, ok := in.sideTab["clock.now"].(*term.Term)
			if !ok {
				now = in.Eng.Fresh("time.Now.unix", term.BV(64))
				in.Eng.addPC(term.SLe(term.BVC(64, 0), now))
				in.Eng.addPC(term.SLt(now, term.BVC(64, 1<<40)))
				in.sideTab["clock.now"] = now
			}
			return StructV{[]Value{term.BVC(64, 0), term.Add(now, term.BVC(64, unixToInternal)), Ptr{}}}
		}
		if !frozen {
			// no clock model asked for: run time.Now's own body (its runtime
			// clock read `time.now` has no body: INCONCLUSIVE unless the harness
			// lists it under "havoc", which makes the instant unconstrained)
			if fn.Blocks == nil && fn.Pkg != nil {
				fn.Pkg.Build()
			}
			return in.runFunction(fn, args, nil)
		}
		if zoneLocal(in) {
			// "zone:local": the frozen reading is located in time.Local, which
			// the harness has set to a time.FixedZone (intr_time_zone.go)
			return StructV{[]Value{term.BVC(64, 0), term.BVC(64, uint64(fakeNowUnix+unixToInternal)), timeLocalValue(in, fn)}}
		}
		return StructV{[]Value{term.BVC(64, 0), term.BVC(64, uint64(fakeNowUnix+unixToInternal)), Ptr{}}}
	})
	hostTime := func(in *Interp, v Value) time.Time {
		if zoneLocal(in) {
			return hostTimeZoned(in, v)
		}
		s, ok := v.(StructV)
		if !ok || len(s.F) != 3 {
			panic(in.bug("time.Time value expected"))
		}
		wall, ext := s.F[0].(*term.Term), s.F[1].(*term.Term)
		if !wall.IsConst() || !ext.IsConst() {
			panic(in.inconclusive("formatting of a symbolic time.Time is not modelled"))
		}
		if wall.U>>63 != 0 {
			panic(in.inconclusive("time.Time with a monotonic reading is not modelled"))
		}
		if p, ok := s.F[2].(Ptr); !ok || p.C != nil {
			panic(in.inconclusive("time.Time with a non-UTC location is not modelled"))
		}
		return time.Unix(ext.SignedVal()-unixToInternal, int64(wall.U&(1<<30-1))).UTC()
	}
	reg("(time.Time).Format", func(in *Interp, fn *ssa.Function, args []Value) Value {
		layout := concreteStr(in, args[1], "Time.Format layout")
		return StrOf(hostTime(in, args[0]).Format(layout))
	})
	reg("(time.Time).String", func(in *Interp, fn *ssa.Function, args []Value) Value {
		return StrOf(hostTime(in, args[0]).String())
	})
}
