package interp

import (
	"go/types"
	"net/textproto"

	"golang.org/x/tools/go/ssa"

	"verif/engine/internal/term"
)

// Data-level models of the few net/http and context entry points that request
// routing code touches.  Nothing of the HTTP machinery is modelled: a Header
// is its map, a Request is its struct, and http.Error drives the
// ResponseWriter the harness supplies exactly as the standard library does.

func structField(in *Interp, c *Cell, name string) *Cell {
	st, ok := c.T.Underlying().(*types.Struct)
	if !ok {
		panic(in.bug("structField %s: not a struct: %s", name, c.T))
	}
	for i := 0; i < st.NumFields(); i++ {
		if st.Field(i).Name() == name {
			return c.F[i]
		}
	}
	panic(in.bug("structField: no field %s in %s", name, c.T))
}

func (in *Interp) headerKey(v Value, what string) Str {
	k, ok := v.(Str).Concrete()
	if !ok {
		panic(in.inconclusive("%s: symbolic header key", what))
	}
	return StrOf(textproto.CanonicalMIMEHeaderKey(k))
}

func (in *Interp) callIfaceMethod(recv Iface, name string, args ...Value) Value {
	if recv.T == nil {
		panic(in.runtimePanic("invalid memory address or nil pointer dereference (nil interface method call " + name + ")"))
	}
	fn := in.findMethod(recv.T, name)
	if fn == nil {
		panic(in.bug("method %s not found on %s", name, recv.T))
	}
	return in.callFunction(fn, append([]Value{recv.V}, args...), nil)
}

func init() {
	strSliceT := types.NewSlice(types.Typ[types.String])
	headerSet := func(in *Interp, h Value, key Str, vals []Value) {
		m := h.(MapV)
		if m.M == nil {
			panic(in.runtimePanic("assignment to entry in nil map"))
		}
		cells := make([]*Cell, len(vals))
		for i, v := range vals {
			cells[i] = &Cell{T: types.Typ[types.String], V: v, ID: in.newID()}
		}
		in.mapSet(m.M, key, Slice{cells})
	}
	for _, recv := range []string{"(net/http.Header)", "(net/textproto.MIMEHeader)"} {
		recv := recv
		reg(recv+".Set", func(in *Interp, fn *ssa.Function, args []Value) Value {
			headerSet(in, args[0], in.headerKey(args[1], recv+".Set"), []Value{args[2]})
			return nil
		})
		reg(recv+".Add", func(in *Interp, fn *ssa.Function, args []Value) Value {
			key := in.headerKey(args[1], recv+".Add")
			var vals []Value
			if old, ok := in.mapGet(args[0].(MapV).M, key); ok {
				for _, c := range old.(Slice).Cells {
					vals = append(vals, c.V)
				}
			}
			headerSet(in, args[0], key, append(vals, args[2]))
			return nil
		})
		reg(recv+".Get", func(in *Interp, fn *ssa.Function, args []Value) Value {
			v, ok := in.mapGet(args[0].(MapV).M, in.headerKey(args[1], recv+".Get"))
			if !ok || len(v.(Slice).Cells) == 0 {
				return Str{}
			}
			return v.(Slice).Cells[0].V
		})
		reg(recv+".Values", func(in *Interp, fn *ssa.Function, args []Value) Value {
			v, ok := in.mapGet(args[0].(MapV).M, in.headerKey(args[1], recv+".Values"))
			if !ok {
				return in.zero(strSliceT)
			}
			return v
		})
		reg(recv+".Del", func(in *Interp, fn *ssa.Function, args []Value) Value {
			if m := args[0].(MapV); m.M != nil {
				in.mapDelete(m.M, in.headerKey(args[1], recv+".Del"))
			}
			return nil
		})
	}

	// http.Error(w, msg, code) as in net/http (go1.23): headers, status, body line.
	httpError := func(in *Interp, w Iface, msg Str, code *term.Term) {
		h := in.callIfaceMethod(w, "Header")
		if m, ok := h.(MapV); ok && m.M != nil {
			in.mapDelete(m.M, StrOf("Content-Length"))
			headerSet(in, h, StrOf("Content-Type"), []Value{StrOf("text/plain; charset=utf-8")})
			headerSet(in, h, StrOf("X-Content-Type-Options"), []Value{StrOf("nosniff")})
		} else {
			panic(in.runtimePanic("assignment to entry in nil map"))
		}
		in.callIfaceMethod(w, "WriteHeader", code)
		body := Str{append(append([]*term.Term{}, msg.B...), term.BVC(8, '\n'))}
		in.callIfaceMethod(w, "Write", in.convert(body, types.Typ[types.String], types.NewSlice(types.Typ[types.Uint8])))
	}
	reg("net/http.Error", func(in *Interp, fn *ssa.Function, args []Value) Value {
		httpError(in, args[0].(Iface), args[1].(Str), tt(args[2]))
		return nil
	})
	reg("net/http.NotFound", func(in *Interp, fn *ssa.Function, args []Value) Value {
		httpError(in, args[0].(Iface), StrOf("404 page not found"), intC(404))
		return nil
	})
	reg("(net/http.HandlerFunc).ServeHTTP", func(in *Interp, fn *ssa.Function, args []Value) Value {
		return in.callValue(args[0].(FuncV), args[1:], nil)
	})

	// (*http.Request).Context / WithContext: the unexported ctx field.
	reg("(*net/http.Request).Context", func(in *Interp, fn *ssa.Function, args []Value) Value {
		c := structField(in, cellArg(in, args[0]), "ctx")
		if iv, ok := c.V.(Iface); ok && iv.T != nil {
			return iv
		}
		bg := in.Prog.ImportedPackage("context")
		if bg == nil || bg.Func("Background") == nil {
			panic(in.inconclusive("(*http.Request).Context: package context not loaded"))
		}
		return in.callFunction(bg.Func("Background"), nil, nil)
	})
	reg("(*net/http.Request).WithContext", func(in *Interp, fn *ssa.Function, args []Value) Value {
		old := cellArg(in, args[0])
		ctx := args[1].(Iface)
		if ctx.T == nil {
			panic(&GoPanic{V: Iface{T: types.Typ[types.String], V: StrOf("nil context")}, Msg: "nil context", Stack: in.where()})
		}
		nc := in.newCell(old.T)
		in.store(nc, in.load(old))
		structField(in, nc, "ctx").V = ctx
		return Ptr{nc}
	})

	// context.WithValue: &valueCtx{parent, key, val}; lookups run from context's own SSA.
	reg("context.WithValue", func(in *Interp, fn *ssa.Function, args []Value) Value {
		parent, key := args[0].(Iface), args[1].(Iface)
		if parent.T == nil {
			panic(&GoPanic{V: Iface{T: types.Typ[types.String], V: StrOf("cannot create context from nil parent")}, Msg: "cannot create context from nil parent", Stack: in.where()})
		}
		if key.T == nil {
			panic(&GoPanic{V: Iface{T: types.Typ[types.String], V: StrOf("nil key")}, Msg: "nil key", Stack: in.where()})
		}
		if !types.Comparable(key.T) {
			panic(&GoPanic{V: Iface{T: types.Typ[types.String], V: StrOf("key is not comparable")}, Msg: "key is not comparable", Stack: in.where()})
		}
		vt := fn.Pkg.Type("valueCtx")
		if vt == nil {
			panic(in.bug("context.valueCtx not found"))
		}
		c := in.newCell(vt.Type())
		structField(in, c, "Context").V = parent
		structField(in, c, "key").V = key
		structField(in, c, "val").V = args[2]
		return Iface{T: types.NewPointer(vt.Type()), V: Ptr{c}}
	})
}
