package interp

// One-shot timers on a virtual monotonic clock that is driven by time.Sleep.
// Opt-in: "execute": ["clock:timers"] in harness.json.
//
//   virtual clock      a 64-bit term, 0 at the start of every path. Time passes
//                      ONLY inside time.Sleep(d): the clock moves forward by
//                      max(d, 0). Nothing else (no computation, no blocking, no
//                      verifYield) takes time. Discrete-event semantics.
//   time.NewTimer(d)   a timer with deadline clock+d and a capacity-1 channel
//                      (the runtime's). d <= 0: it fires at once, as in Go.
//   time.Sleep(d)      advances the clock, then fires - in creation order -
//                      every timer that is neither stopped nor fired and whose
//                      deadline is <= the new clock (one fork per timer when the
//                      comparison is symbolic), and then yields as the plain
//                      Sleep model does, so that the woken goroutines run before
//                      the sleeper continues.
//   (*Timer).Stop      true iff the timer was still pending; never fires after.
//
// A timer therefore fires never before its duration has elapsed on the clock
// (as the runtime guarantees) and no later than the end of the Sleep during
// which it falls due (the runtime only guarantees "eventually"; the model picks
// the earliest point that a harness can observe). Timers that fall due inside
// the same Sleep fire in creation order, not in deadline order: a harness that
// depends on the order of two timers must sleep up to each deadline separately.
//
// Natively the real timers and the real time.Sleep run. A harness keeps the two
// worlds in step by letting time pass only through time.Sleep and by keeping
// its durations far apart compared to scheduling noise (tens of milliseconds):
// see harness/C18/h18w_cond.go, which also advances its lib/timex stub clock by
// the slept amount *before* it sleeps, so that the stub clock never lags behind
// the timers.

import (
	"go/types"

	"golang.org/x/tools/go/ssa"

	"verif/engine/internal/term"
)

type timerState struct {
	deadline *term.Term
	ch       *ChanObj
	stopped  bool
	fired    bool
	tick     Value
}

type timerWorld struct {
	clock  *term.Term
	timers []*timerState
	byCell map[int]*timerState
}

func (in *Interp) timersOn() bool {
	for _, e := range in.Cfg.Execute {
		if e == "clock:timers" {
			return true
		}
	}
	return false
}

func (in *Interp) timerWorld() *timerWorld {
	w, ok := in.sideTab["clock:timers"].(*timerWorld)
	if !ok {
		w = &timerWorld{clock: term.BVC(64, 0), byCell: map[int]*timerState{}}
		in.sideTab["clock:timers"] = w
	}
	return w
}

func (in *Interp) timerFire(t *timerState) {
	t.fired = true
	in.doSend(t.ch, t.tick) // capacity 1 and never filled before: cannot block
}

// timerSleep is the clock part of time.Sleep under "clock:timers".
func (in *Interp) timerSleep(d *term.Term) {
	w := in.timerWorld()
	if !in.Eng.Branch(term.SLe(d, term.BVC(64, 0))) {
		w.clock = term.Add(w.clock, d)
	}
	for _, t := range w.timers {
		if t.stopped || t.fired {
			continue
		}
		if in.Eng.Branch(term.SLe(t.deadline, w.clock)) {
			in.timerFire(t)
		}
	}
}

func init() {
	reg("time.NewTimer", func(in *Interp, fn *ssa.Function, args []Value) Value {
		if !in.timersOn() {
			panic(in.inconclusive("time.NewTimer is only modelled under \"execute\": [\"clock:timers\"]"))
		}
		if in.inInit > 0 {
			panic(in.inconclusive("time.NewTimer in a package initialiser is not modelled"))
		}
		d := tt(args[0])
		pt := fn.Signature.Results().At(0).Type().(*types.Pointer)
		cell := in.newCell(pt.Elem())
		ci := fieldIndex(in, pt.Elem(), "C")
		timeT := cell.F[ci].T.Underlying().(*types.Chan).Elem()
		ch := &ChanObj{Cap: 1, ID: in.newID(), ElemT: timeT}
		cell.F[ci].V = ChanV{ch}
		w := in.timerWorld()
		t := &timerState{deadline: term.Add(w.clock, d), ch: ch, tick: in.zero(timeT)}
		w.timers = append(w.timers, t)
		w.byCell[cell.ID] = t
		if in.Eng.Branch(term.SLe(d, term.BVC(64, 0))) {
			in.timerFire(t)
		}
		return Ptr{cell}
	})

	reg("(*time.Timer).Stop", func(in *Interp, fn *ssa.Function, args []Value) Value {
		cell := cellArg(in, args[0])
		t, ok := in.timerWorld().byCell[cell.ID]
		if !ok {
			panic(in.inconclusive("(*time.Timer).Stop on a timer that time.NewTimer did not create"))
		}
		was := !t.stopped && !t.fired
		t.stopped = true
		return term.BoolC(was)
	})
}
