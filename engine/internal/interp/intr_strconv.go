package interp

import (
	"go/types"
	"strconv"

	"golang.org/x/tools/go/ssa"

	"verif/engine/internal/term"
)

func (in *Interp) numError(fnName string, s Str, what string) Value {
	msg := "strconv." + fnName + ": parsing "
	if c, ok := s.Concrete(); ok {
		msg += strconv.Quote(c)
	} else {
		msg += "<symbolic>"
	}
	return in.newError(StrOf(msg+": "+what), Iface{})
}

func init() {
	// strconv.ParseFloat: concrete strings through the host; symbolic strings
	// only when they are plain decimal integers of at most 15 digits (exact in
	// float64), anything else is inconclusive.
	reg("strconv.ParseFloat", func(in *Interp, fn *ssa.Function, args []Value) Value {
		s := args[0].(Str)
		bits := concreteInt(in, args[1], "strconv.ParseFloat bitSize")
		if c, ok := s.Concrete(); ok {
			f, err := strconv.ParseFloat(c, bits)
			if err != nil {
				what := "invalid syntax"
				if ne, ok := err.(*strconv.NumError); ok && ne.Err == strconv.ErrRange {
					what = "value out of range"
				}
				return Tuple{term.FC(64, f), in.numError("ParseFloat", s, what)}
			}
			return Tuple{term.FC(64, f), Iface{}}
		}
		b := s.B
		neg := false
		if len(b) > 0 {
			isMinus := term.Eq(b[0], term.BVC(8, '-'))
			isPlus := term.Eq(b[0], term.BVC(8, '+'))
			if in.Eng.Branch(isMinus) {
				neg = true
				b = b[1:]
			} else if in.Eng.Branch(isPlus) {
				b = b[1:]
			}
		}
		if len(b) == 0 {
			return Tuple{term.FC(64, 0), in.numError("ParseFloat", s, "invalid syntax")}
		}
		if r, ok := in.parseFloatDecimal(s, b, neg, bits); ok { // fraction / exponent forms: intr_strconv_float.go
			return r
		}
		if len(b) > 15 {
			panic(in.inconclusive("strconv.ParseFloat of a symbolic string longer than 15 digits"))
		}
		val := term.BVC(64, 0)
		for _, d := range b {
			isDigit := term.And(term.ULe(term.BVC(8, '0'), d), term.ULe(d, term.BVC(8, '9')))
			if !in.Eng.Branch(isDigit) {
				panic(in.inconclusive("strconv.ParseFloat of a symbolic string that is not a plain decimal integer"))
			}
			val = term.Add(term.Mul(val, term.BVC(64, 10)), term.ZExt(term.Sub(d, term.BVC(8, '0')), 64))
		}
		f := term.SBVToF(val, 64)
		if neg {
			f = term.FNeg(f)
		}
		if bits == 32 {
			f = term.FToF(term.FToF(f, 32), 64)
		}
		return Tuple{f, Iface{}}
	})
	reg("strconv.FormatFloat", func(in *Interp, fn *ssa.Function, args []Value) Value {
		f := tt(args[0])
		if !f.IsConst() {
			return in.opaqueString("strconv.FormatFloat")
		}
		return StrOf(strconv.FormatFloat(f.F, byte(concreteInt(in, args[1], "fmt")), concreteInt(in, args[2], "prec"), concreteInt(in, args[3], "bits")))
	})
	reg("strconv.Quote", func(in *Interp, fn *ssa.Function, args []Value) Value {
		s := args[0].(Str)
		if c, ok := s.Concrete(); ok {
			return StrOf(strconv.Quote(c))
		}
		out := append([]*term.Term{term.BVC(8, '"')}, s.B...)
		return Str{append(out, term.BVC(8, '"'))}
	})
	clone := func(in *Interp, fn *ssa.Function, args []Value) Value { return args[0] }
	reg("internal/stringslite.Clone", clone)
	reg("strings.Clone", clone)
	reg("strconv.cloneString", clone)
	reg("strconv.FormatUint", func(in *Interp, fn *ssa.Function, args []Value) Value {
		t, b := tt(args[0]), tt(args[1])
		if !t.IsConst() || !b.IsConst() {
			return in.opaqueString("strconv.FormatUint")
		}
		return StrOf(strconv.FormatUint(t.U, int(b.SignedVal())))
	})
	_ = types.Typ
}
