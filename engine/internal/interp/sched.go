package interp

import (
	"fmt"
	"go/types"
	"runtime/debug"
	"strings"

	"golang.org/x/tools/go/ssa"

	"verif/engine/internal/term"
)

// G is a goroutine of the program under test, run as a host goroutine; only
// the holder of the baton executes.
type G struct {
	id          int
	wake        chan struct{}
	done        bool
	fr          *Frame
	deferFrames []*Frame
	entry       string
	ready       func() bool // nil = runnable
	yielding    bool
	why         string
	// channel wait state
	waitOps []waitOp
	fired   int
	recvVal Value
	recvOK  bool
	sendPanic bool
	crash   interface{} // engine-level abort raised inside this goroutine
	crashPanic *GoPanic
	exited  chan struct{}
}

type waitOp struct {
	ch   *ChanObj
	send bool
	val  Value
	idx  int
}

type ChanObj struct {
	Cap    int
	Buf    []Value
	Closed bool
	ID     int
	ElemT  types.Type
}

type syncState struct {
	locked   bool
	readers  int
	counter  int
	done     bool
	m        *MapObj
	val      Value
	has      bool
	waiters  int
	pool     []Value
	signals  int
}

func (in *Interp) syncOf(c *Cell) *syncState {
	s, ok := in.sync[c]
	if !ok {
		s = &syncState{}
		in.sync[c] = s
	}
	return s
}

func (in *Interp) newG(entry string) *G {
	g := &G{id: len(in.gs), wake: make(chan struct{}, 1), entry: entry, fired: -1, exited: make(chan struct{})}
	in.gs = append(in.gs, g)
	return g
}

func (in *Interp) inlineGo(fn string) bool {
	for _, p := range in.Cfg.InlineGo {
		if p == "*" || strings.Contains(fn, p) {
			return true
		}
	}
	return false
}

func (in *Interp) spawn(fr *Frame, fv FuncV, args []Value, site *ssa.Go) {
	name := "func"
	if fv.Fn != nil {
		name = fv.Fn.String()
	} else if fv.Name != "" {
		name = fv.Name // engine-level goroutine (e.g. the model of a time.Ticker)
	}
	if in.inInit > 0 {
		// goroutines started by package init (global actors) are not run
		return
	}
	if fv.Native == nil && (in.inlineGo(fr.fn.String()) || in.inlineGo(name)) {
		in.callValue(fv, args, nil)
		return
	}
	g := in.newG(name)
	go func() {
		defer close(g.exited)
		<-g.wake
		if in.aborted {
			g.done = true
			return
		}
		defer func() {
			g.done = true
			r := recover()
			if in.aborted {
				return
			}
			if r != nil {
				main := in.gs[0]
				switch x := r.(type) {
				case *GoPanic:
					main.crash = goroutineCrash{x}
				default:
					main.crash = r
				}
				// a crash ends the program: give the baton straight to main
				in.cur = nil
				main.wake <- struct{}{}
				return
			}
			in.cur = nil
			in.schedule(g)
		}()
		in.cur = g
		in.callValue(fv, args, nil)
	}()
	// the new goroutine does not run until the current one blocks or yields,
	// unless the harness asked for the other order (verifChildFirst)
	if _, ok := in.sideTab["sched.childFirst"]; ok {
		delete(in.sideTab, "sched.childFirst")
		in.yield()
	}
}

func (in *Interp) panicText(gp *GoPanic) string {
	if gp.Msg != "" {
		return gp.Msg
	}
	return in.showValue(gp.V)
}

// runnable reports whether g can make progress now.
func (g *G) runnable() bool {
	if g.done {
		return false
	}
	if g.ready == nil {
		return true
	}
	return g.ready()
}

// schedule hands the baton to the next runnable goroutine. Called by a
// goroutine that is blocked, yielding or finished. Returns when `from` gets
// the baton back (never, if from is done).
func (in *Interp) schedule(from *G) {
	var next *G
	// first: non-yielding runnable goroutines, lowest id first
	for _, g := range in.gs {
		if g != from && !g.yielding && g.runnable() {
			next = g
			break
		}
	}
	if next != nil && in.Cfg.SchedFork > 0 {
		next = in.forkNext(from, next)
	}
	if next == nil && from != nil && from.yielding {
		// a yielding goroutine lets earlier yielders continue first
		for _, g := range in.gs {
			if g != from && g.yielding && g.runnable() {
				next = g
				break
			}
		}
	}
	if next == nil && from != nil && !from.done && from.runnable() {
		// nobody else can run: continue ourselves. Exception: when the main
		// goroutine yields ("let everybody else run to quiescence"), goroutines
		// parked in an earlier yield of their own get their turn first.
		parked := false
		if from.id == 0 && from.yielding {
			for _, g := range in.gs {
				if g != from && g.yielding && g.runnable() {
					parked = true
				}
			}
		}
		if !parked {
			in.cur = from
			return
		}
	}
	if next == nil {
		// resume a yielder (highest id last yielded first)
		for i := len(in.gs) - 1; i >= 0; i-- {
			g := in.gs[i]
			if g != from && g.yielding && g.runnable() {
				next = g
				break
			}
		}
	}
	if next == nil {
		// deadlock: nobody runnable
		main := in.gs[0]
		if main.done {
			return
		}
		main.crash = pathAbort{"deadlock", "deadlock: all goroutines blocked: " + in.blockedSummary()}
		if from == main {
			in.cur = main
			panic(main.crash)
		}
		next = main
	}
	in.handoff(from, next)
}

// handoff gives the baton to next and parks from until it gets it back.
func (in *Interp) handoff(from, next *G) {
	in.cur = nil
	next.wake <- struct{}{}
	if from == nil || from.done {
		return
	}
	<-from.wake
	if in.aborted {
		panic(pathAbort{"done", "aborted"})
	}
	in.cur = from
	if from.crash != nil {
		c := from.crash
		from.crash = nil
		panic(c)
	}
}

func (in *Interp) blockedSummary() string {
	var parts []string
	for _, g := range in.gs {
		if !g.done {
			parts = append(parts, fmt.Sprintf("g%d(%s) %s", g.id, g.entry, g.why))
		}
	}
	return strings.Join(parts, "; ")
}

// block parks the current goroutine until ready() holds.
func (in *Interp) block(ready func() bool, why string) {
	g := in.cur
	for !ready() {
		g.ready = ready
		g.why = why
		in.schedule(g)
	}
	g.ready = nil
	g.why = ""
}

// yield lets every other goroutine run until all are blocked or finished.
func (in *Interp) yield() {
	g := in.cur
	g.yielding = true
	in.schedule(g)
	g.yielding = false
	in.propagateCrashes()
}

func (in *Interp) propagateCrashes() {}

// ---- channels ----

func (in *Interp) findWaiter(ch *ChanObj, send bool) (*G, int) {
	for _, g := range in.gs {
		if g == in.cur || g.done || g.fired >= 0 {
			continue
		}
		for i, op := range g.waitOps {
			if op.ch == ch && op.send == send {
				return g, i
			}
		}
	}
	return nil, -1
}

func (in *Interp) recvReady(ch *ChanObj) bool {
	if ch == nil {
		return false
	}
	if len(ch.Buf) > 0 || ch.Closed {
		return true
	}
	g, _ := in.findWaiter(ch, true)
	return g != nil
}

func (in *Interp) sendReady(ch *ChanObj) bool {
	if ch == nil {
		return false
	}
	if ch.Closed {
		return true // will panic
	}
	if len(ch.Buf) < ch.Cap {
		return true
	}
	g, _ := in.findWaiter(ch, false)
	return g != nil
}

func (in *Interp) doRecv(ch *ChanObj, et types.Type) (Value, bool) {
	if len(ch.Buf) > 0 {
		v := ch.Buf[0]
		ch.Buf = ch.Buf[1:]
		if g, i := in.findWaiter(ch, true); g != nil {
			ch.Buf = append(ch.Buf, g.waitOps[i].val)
			g.fired = g.waitOps[i].idx
			g.waitOps = nil
		}
		return v, true
	}
	if g, i := in.findWaiter(ch, true); g != nil {
		v := g.waitOps[i].val
		g.fired = g.waitOps[i].idx
		g.waitOps = nil
		return v, true
	}
	if ch.Closed {
		return in.zero(et), false
	}
	panic(in.bug("doRecv on non-ready channel"))
}

func (in *Interp) doSend(ch *ChanObj, v Value) {
	if ch.Closed {
		panic(&GoPanic{V: Iface{T: types.Typ[types.String], V: StrOf("send on closed channel")}, Msg: "send on closed channel", Stack: in.where()})
	}
	if g, i := in.findWaiter(ch, false); g != nil && len(ch.Buf) == 0 {
		g.recvVal = v
		g.recvOK = true
		g.fired = g.waitOps[i].idx
		g.waitOps = nil
		return
	}
	if len(ch.Buf) < ch.Cap {
		ch.Buf = append(ch.Buf, v)
		return
	}
	panic(in.bug("doSend on non-ready channel"))
}

func (in *Interp) waitFired(g *G, why string) {
	g.fired = -1
	in.block(func() bool { return g.fired >= 0 }, why)
	g.waitOps = nil
}

func (in *Interp) chanRecv(ch *ChanObj, et types.Type) (Value, bool) {
	in.preemptPoint("chan")
	if ch == nil {
		in.block(func() bool { return false }, "recv on nil chan")
	}
	if in.recvReady(ch) {
		return in.doRecv(ch, et)
	}
	g := in.cur
	g.waitOps = []waitOp{{ch: ch, send: false, idx: 0}}
	g.recvVal, g.recvOK = nil, false
	in.waitFired(g, fmt.Sprintf("recv chan#%d", ch.ID))
	g.fired = -1
	if !g.recvOK {
		return in.zero(et), false
	}
	return g.recvVal, true
}

func (in *Interp) chanSend(ch *ChanObj, v Value) {
	in.preemptPoint("chan")
	if ch == nil {
		in.block(func() bool { return false }, "send on nil chan")
	}
	if in.sendReady(ch) {
		in.doSend(ch, v)
		return
	}
	g := in.cur
	g.waitOps = []waitOp{{ch: ch, send: true, val: v, idx: 0}}
	g.sendPanic = false
	in.waitFired(g, fmt.Sprintf("send chan#%d", ch.ID))
	g.fired = -1
	if g.sendPanic {
		g.sendPanic = false
		panic(&GoPanic{V: Iface{T: types.Typ[types.String], V: StrOf("send on closed channel")}, Msg: "send on closed channel", Stack: in.where()})
	}
}

func (in *Interp) chanClose(ch *ChanObj) {
	in.preemptPoint("chan")
	if ch == nil {
		panic(in.runtimePanic("close of nil channel"))
	}
	if ch.Closed {
		panic(&GoPanic{V: Iface{T: types.Typ[types.String], V: StrOf("close of closed channel")}, Msg: "close of closed channel", Stack: in.where()})
	}
	ch.Closed = true
	for _, g := range in.gs {
		if g == in.cur || g.done || g.fired >= 0 {
			continue
		}
		for _, op := range g.waitOps {
			if op.ch == ch {
				if op.send {
					g.sendPanic = true
				} else {
					g.recvVal, g.recvOK = nil, false
				}
				g.fired = op.idx
				g.waitOps = nil
				break
			}
		}
	}
}

func (in *Interp) selectOp(fr *Frame, x *ssa.Select) Value {
	type st struct {
		ch   *ChanObj
		send bool
		val  Value
		et   types.Type
	}
	in.preemptPoint("select")
	states := make([]st, len(x.States))
	var ready []int
	for i, s := range x.States {
		cv := in.get(fr, s.Chan).(ChanV)
		states[i] = st{ch: cv.C, send: s.Dir == types.SendOnly, et: s.Chan.Type().Underlying().(*types.Chan).Elem()}
		if states[i].send {
			states[i].val = in.get(fr, s.Send)
			if in.sendReady(cv.C) {
				ready = append(ready, i)
			}
		} else if in.recvReady(cv.C) {
			ready = append(ready, i)
		}
	}
	// result tuple: (index int, recvOk bool, r_0 T_0, ... r_n-1 T_n-1) for recv states
	result := func(idx int, ok bool, val Value) Value {
		tv := Tuple{intC(idx), term.BoolC(ok)}
		for i, s := range states {
			if s.send {
				continue
			}
			if i == idx && val != nil {
				tv = append(tv, val)
			} else {
				tv = append(tv, in.zero(s.et))
			}
		}
		return tv
	}
	pick := -1
	if len(ready) == 1 {
		pick = ready[0]
	} else if len(ready) > 1 {
		pick = ready[in.Eng.Choose(len(ready), "select")]
	}
	if pick >= 0 {
		s := states[pick]
		if s.send {
			in.doSend(s.ch, s.val)
			return result(pick, false, nil)
		}
		v, ok := in.doRecv(s.ch, s.et)
		return result(pick, ok, v)
	}
	if !x.Blocking {
		return result(-1, false, nil)
	}
	g := in.cur
	g.waitOps = nil
	for i, s := range states {
		if s.ch == nil {
			continue
		}
		g.waitOps = append(g.waitOps, waitOp{ch: s.ch, send: s.send, val: s.val, idx: i})
	}
	g.recvVal, g.recvOK, g.sendPanic = nil, false, false
	in.waitFired(g, "select")
	idx := g.fired
	g.fired = -1
	if states[idx].send {
		if g.sendPanic {
			g.sendPanic = false
			panic(&GoPanic{V: Iface{T: types.Typ[types.String], V: StrOf("send on closed channel")}, Msg: "send on closed channel", Stack: in.where()})
		}
		return result(idx, false, nil)
	}
	if !g.recvOK {
		return result(idx, false, nil)
	}
	return result(idx, true, g.recvVal)
}

// RunMain executes fn as goroutine 0 and returns how the path ended.
func (in *Interp) RunMain(fn *ssa.Function) (res interface{}) {
	g := in.newG("main")
	in.cur = g
	defer func() {
		r := recover()
		switch r.(type) {
		case nil, pathAbort, *GoPanic, engineBug, goroutineCrash:
			res = r
		default:
			res = engineBug{fmt.Sprintf("engine crash: %v\n%s%s", r, debug.Stack(), in.where())}
		}
		in.teardown()
	}()
	in.runFunction(fn, nil, nil)
	// let remaining goroutines settle (they may still do work the harness
	// already checked; crashes in them are still failures)
	in.yield()
	g.done = true
	// leak check
	for _, o := range in.gs[1:] {
		if !o.done {
			allowed := false
			for _, p := range in.Cfg.MayBlock {
				if p == "*" || strings.Contains(o.entry, p) {
					allowed = true
				}
			}
			if !allowed {
				panic(pathAbort{"leak", fmt.Sprintf("goroutine leak: g%d (%s) still blocked at harness end: %s", o.id, o.entry, o.why)})
			}
		}
	}
	return nil
}

func (in *Interp) teardown() {
	in.aborted = true
	for _, g := range in.gs[1:] {
		if !g.done {
			select {
			case g.wake <- struct{}{}:
			default:
			}
		}
	}
	for _, g := range in.gs[1:] {
		<-g.exited
	}
}
