package interp

import (
	"golang.org/x/tools/go/ssa"

	"verif/engine/internal/term"
)

// sort.Slice / sort.SliceStable use reflection (reflectlite.Swapper) in the
// real library. The model is a stable binary-insertion sort over the slice's
// cells that calls the program's own `less` closure for every comparison (a
// symbolic result forks the path, so each path carries one total order of the
// elements in its path condition). Cell values are moved, not the cells, so
// every alias of the backing array (the closure's captured slice) sees the
// permutation exactly as it would natively.
//
// For any `less` that is a strict weak order the result is the same sequence
// (up to the order of equivalent elements for sort.Slice, which the library
// leaves unspecified) that pdqsort produces natively.
func init() {
	sortSlice := func(in *Interp, fn *ssa.Function, args []Value) Value {
		iv, ok := args[0].(Iface)
		if !ok {
			panic(in.bug("sort.Slice: first argument is %T", args[0]))
		}
		if iv.T == nil {
			panic(in.runtimePanic("reflect: call of Swapper on zero Value"))
		}
		s, ok := iv.V.(Slice)
		if !ok {
			panic(in.runtimePanic("reflect: call of Swapper on non-slice value"))
		}
		less, ok := args[1].(FuncV)
		if !ok {
			panic(in.bug("sort.Slice: less is %T", args[1]))
		}
		n := len(s.Cells)
		for i := 1; i < n; i++ {
			// smallest p in [0,i] with elem[i] < elem[p]
			lo, hi := 0, i
			for lo < hi {
				mid := (lo + hi) / 2
				r := in.callValue(less, []Value{intC(i), intC(mid)}, nil)
				c, ok := r.(*term.Term)
				if !ok {
					panic(in.bug("sort.Slice: less returned %T", r))
				}
				if in.Eng.Branch(c) {
					hi = mid
				} else {
					lo = mid + 1
				}
			}
			if lo == i {
				continue
			}
			x := in.load(s.Cells[i])
			for j := i; j > lo; j-- {
				in.store(s.Cells[j], in.load(s.Cells[j-1]))
			}
			in.store(s.Cells[lo], x)
		}
		return nil
	}
	reg("sort.Slice", sortSlice)
	reg("sort.SliceStable", sortSlice)
}
