package interp

import (
	"golang.org/x/tools/go/ssa"

	"verif/engine/internal/term"
)

// (*os.File).Seek on the model file system: the handle's offset as the kernel
// keeps it — 0 for a freshly opened file, also with O_APPEND (an append write
// first moves it to the end), whence 0/1/2 = start/current/end.
func init() {
	reg("(*os.File).Seek", func(in *Interp, fn *ssa.Function, args []Value) Value {
		h := in.osHandleOf(args[0])
		if h == nil {
			return Tuple{term.BVC(64, 0), in.osErr("seek", Str{}, "ErrInvalid", "invalid argument")}
		}
		if h.closed {
			return Tuple{term.BVC(64, 0), in.osErr("seek", h.name, "ErrClosed", "file already closed")}
		}
		off := concreteInt(in, args[1], "(*os.File).Seek offset")
		whence := concreteInt(in, args[2], "(*os.File).Seek whence")
		base := 0
		switch whence {
		case 0:
		case 1:
			base = h.pos
		case 2:
			base = len(h.node.data)
		default:
			return Tuple{term.BVC(64, 0), in.osErr("seek", h.name, "ErrInvalid", "invalid argument")}
		}
		np := base + off
		if np < 0 {
			return Tuple{term.BVC(64, 0), in.osErr("seek", h.name, "ErrInvalid", "invalid argument")}
		}
		h.pos = np
		return Tuple{intC(np), Iface{}}
	})
}
