package interp

import (
	"fmt"
	"go/constant"
	"go/token"
	"go/types"
	"sort"
	"strings"

	"golang.org/x/tools/go/ssa"

	"verif/engine/internal/term"
)

// Config is the per-harness environment description.
type Config struct {
	HarnessPkg string            // import path of the package holding the harness
	Execute    []string          // package path prefixes executed from SSA (besides defaults)
	Stubs      map[string]string // callee full name -> harness function name (in HarnessPkg)
	Havoc      []string          // callee full-name patterns ("pkg.*" or exact)
	InlineGo   []string          // function-name substrings whose `go` statements run inline; "*" = all
	Unwind     int
	Params     map[string]int
	MayBlock   []string // goroutine entry-function substrings allowed to remain blocked
	PermuteMap bool
	NoInit     []string // packages whose init is skipped
	InitPkgs   []string // non-repo packages whose init runs for real
	SchedFork  int      // >0: scheduling choices fork (sched_fork.go); bound on non-default choices per path
}

type Interp struct {
	Prog *ssa.Program
	Cfg  *Config
	Eng  *Engine

	// per path
	idGen    int
	globals  map[*ssa.Global]*Cell
	opaqueG  map[string]Value
	sync     map[*Cell]*syncState
	gs       []*G
	cur      *G
	aborted  bool
	depth    int
	initDone map[*ssa.Package]bool
	inInit   int
	sideTab  map[string]Value
	steps    int
	schedForks int // non-default scheduling choices taken on this path (sched_fork.go)

	// across paths
	FuncsSeen  map[string]bool
	StubsHit   map[string]bool
	HavocHit   map[string]bool
	IntrHit    map[string]bool
	UnwindMax  int
	harnessPkg *ssa.Package
}

type GoPanic struct {
	V     Value
	Msg   string // for runtime panics
	Stack string
}

type pathAbort struct {
	kind   string // "infeasible", "inconclusive", "violation", "done"
	reason string
}

type engineBug struct{ msg string }

func (in *Interp) bug(format string, a ...interface{}) engineBug {
	return engineBug{fmt.Sprintf(format, a...) + in.where()}
}

func (in *Interp) where() string {
	if in.cur == nil || in.cur.fr == nil {
		return ""
	}
	var b strings.Builder
	for fr, n := in.cur.fr, 0; fr != nil && n < 12; fr, n = fr.caller, n+1 {
		pos := ""
		if fr.curInstr != nil {
			pos = in.Prog.Fset.Position(fr.curInstr.Pos()).String()
		}
		fmt.Fprintf(&b, "\n    at %s %s", fr.fn.String(), pos)
	}
	return b.String()
}

func (in *Interp) inconclusive(format string, a ...interface{}) pathAbort {
	return pathAbort{"inconclusive", fmt.Sprintf(format, a...) + in.where()}
}

type deferred struct {
	fn   FuncV
	args []Value
	call *ssa.CallCommon
	recv Value
}

type Frame struct {
	fn        *ssa.Function
	env       map[ssa.Value]Value
	block     *ssa.BasicBlock
	prev      *ssa.BasicBlock
	defers    []deferred
	panicking *GoPanic
	recovered bool
	result    Value
	back      map[int]int
	caller    *Frame
	curInstr  ssa.Instruction
	bind      []Value
}

func New(prog *ssa.Program, pkg *ssa.Package, cfg *Config) *Interp {
	return &Interp{Prog: prog, Cfg: cfg, harnessPkg: pkg,
		FuncsSeen: map[string]bool{}, StubsHit: map[string]bool{}, HavocHit: map[string]bool{}, IntrHit: map[string]bool{}}
}

func (in *Interp) resetPath() {
	in.idGen = 0
	in.globals = map[*ssa.Global]*Cell{}
	in.opaqueG = map[string]Value{}
	in.sync = map[*Cell]*syncState{}
	in.gs = nil
	in.cur = nil
	in.aborted = false
	in.depth = 0
	in.initDone = map[*ssa.Package]bool{}
	in.sideTab = map[string]Value{}
	in.steps = 0
	in.schedForks = 0
}

// ---- value lookup ----

func (in *Interp) get(fr *Frame, v ssa.Value) Value {
	switch x := v.(type) {
	case *ssa.Const:
		return in.constValue(x)
	case *ssa.Global:
		return Ptr{in.globalCell(x)}
	case *ssa.Function:
		return FuncV{Fn: x}
	case *ssa.Builtin:
		return FuncV{Builtin: x}
	case *ssa.FreeVar:
		for i, fv := range fr.fn.FreeVars {
			if fv == x {
				return fr.bind[i]
			}
		}
		panic(in.bug("free var %s not found", x.Name()))
	}
	val, ok := fr.env[v]
	if !ok {
		panic(in.bug("value %s (%T) not in env of %s", v.Name(), v, fr.fn))
	}
	return val
}

func (in *Interp) constValue(c *ssa.Const) Value {
	t := c.Type()
	if c.Value == nil {
		return in.zero(t)
	}
	if tp, ok := t.(*types.TypeParam); ok {
		_ = tp
		panic(in.bug("const of type param"))
	}
	b, ok := t.Underlying().(*types.Basic)
	if !ok {
		panic(in.bug("const of non-basic type %s", t))
	}
	if w, _, ok := bvWidth(b); ok {
		if i, ok := constant.Int64Val(constant.ToInt(c.Value)); ok {
			return term.BVC(w, uint64(i))
		}
		if u, ok := constant.Uint64Val(constant.ToInt(c.Value)); ok {
			return term.BVC(w, u)
		}
		panic(in.bug("int const out of range %s", c.Value))
	}
	switch b.Kind() {
	case types.Bool, types.UntypedBool:
		return term.BoolC(constant.BoolVal(c.Value))
	case types.Float64, types.UntypedFloat:
		f, _ := constant.Float64Val(c.Value)
		return term.FC(64, f)
	case types.Float32:
		f, _ := constant.Float64Val(c.Value)
		return term.FC(32, f)
	case types.String, types.UntypedString:
		return StrOf(constant.StringVal(c.Value))
	}
	panic(in.bug("const kind %s", t))
}

func (in *Interp) pkgExecuted(path string) bool {
	if path == in.Cfg.HarnessPkg {
		return true
	}
	for _, p := range in.Cfg.Execute {
		if p == path || (strings.HasSuffix(p, "/...") && strings.HasPrefix(path, strings.TrimSuffix(p, "...")) || strings.HasSuffix(p, "/...") && path == strings.TrimSuffix(p, "/...")) {
			return true
		}
	}
	return stdAllowed[path]
}

// intrinsicOptOut: packages whose intrinsics are bypassed when the harness
// lists the package under "execute" (it then runs from its own SSA).
var intrinsicOptOut = map[string]bool{"google.golang.org/grpc/status": true}

// fnAllowed: individual pure functions of packages that are otherwise not executed.
var fnAllowed = map[string]bool{
	"(reflect.StructTag).Get": true, "(reflect.StructTag).Lookup": true,
	"(encoding/json.Number).String": true, "(encoding/json.Number).Int64": true, "(encoding/json.Number).Float64": true,
}

var stdAllowed = map[string]bool{
	"container/list": true, "container/heap": true, "container/ring": true, "sort": true, "slices": true, "path": true,
	"bytes": true, "strings": true, "unicode/utf8": true, "unicode": true, "errors": true,
	"math/bits": true, "strconv": true, "maps": true, "cmp": true, "internal/bytealg": true,
	"internal/stringslite": true, "math": true, "io": true, "sync/atomic": true, "time": true,
	"net/textproto": true, "net/http/internal/ascii": true, "internal/itoa": true,
	"path/filepath": true, "internal/filepathlite": true, "bufio": true, "iter": true, "context": true,
}

func (in *Interp) globalCell(g *ssa.Global) *Cell {
	if c, ok := in.globals[g]; ok {
		return c
	}
	elem := g.Type().(*types.Pointer).Elem()
	c := in.newCell(elem)
	in.globals[g] = c
	path := ""
	if g.Pkg != nil {
		path = g.Pkg.Pkg.Path()
	}
	if g.Pkg != nil && in.pkgInit(path) {
		// real initial value: run the package's init first
		in.ensureInit(g.Pkg)
		return c
	}
	// foreign global (standard library / third party): sentinel values of
	// interface type are opaque unique objects (compared by identity only);
	// pointers point to an unreadable object; anything else is unreadable.
	name := path + "." + g.Name()
	if mk, ok := foreignGlobals[name]; ok {
		c.V = mk(in, elem)
		return c
	}
	switch et := elem.Underlying().(type) {
	case *types.Pointer:
		pc := &Cell{T: et.Elem(), V: poison{name}, ID: in.newID()}
		c.V = Ptr{pc}
	case *types.Interface:
		c.V = Iface{T: opaqueType(name), V: Opaque{ID: in.newID(), T: elem}}
	default:
		c.V = poison{name}
		c.F = nil
		c.T = types.Typ[types.Invalid]
	}
	return c
}

// pkgInit: packages whose init runs for real (the repository's and the harness's).
func (in *Interp) pkgInit(path string) bool {
	if path == in.Cfg.HarnessPkg || strings.HasPrefix(path, "github.com/gotid/god") || strings.HasPrefix(path, "command-line-arguments") {
		return true
	}
	for _, p := range in.Cfg.InitPkgs {
		if p == path {
			return true
		}
	}
	for _, e := range in.Cfg.Execute {
		// "execute": ["init:<pkg>"]: run that foreign package's initialiser for
		// real (small lookup tables such as httpguts.isTokenTable)
		if e == "init:"+path {
			return true
		}
	}
	return stdInit[path]
}

// stdInit: standard-library packages whose (cheap, pure) package initialisers
// run for real so that their small lookup tables have their values.
var stdInit = map[string]bool{"unicode/utf8": true, "strings": true, "bytes": true, "strconv": true, "path": true, "sort": true}

// foreignGlobals: modelled initial values of individual foreign globals
// (registered next to the intrinsics that need them).
var foreignGlobals = map[string]func(in *Interp, elem types.Type) Value{}

// poison marks an unmodelled foreign global; any use is inconclusive.
type poison struct{ name string }

var opaqueTypes = map[string]types.Type{}

func opaqueType(name string) types.Type {
	if t, ok := opaqueTypes[name]; ok {
		return t
	}
	tn := types.NewTypeName(token.NoPos, nil, "opaque:"+name, nil)
	t := types.NewNamed(tn, types.NewStruct(nil, nil), nil)
	opaqueTypes[name] = t
	return t
}

func (in *Interp) ensureInit(p *ssa.Package) {
	if in.initDone[p] {
		return
	}
	in.initDone[p] = true
	for _, s := range in.Cfg.NoInit {
		if s == p.Pkg.Path() {
			return
		}
	}
	p.Build() // the package may not have been built yet (nothing called into it)
	initFn := p.Func("init")
	if initFn == nil || initFn.Blocks == nil {
		return
	}
	in.inInit++
	defer func() { in.inInit-- }()
	in.runFunction(initFn, nil, nil)
}

// ---- calls ----

func (in *Interp) callValue(fv FuncV, args []Value, site ssa.Instruction) Value {
	switch {
	case fv.Native != nil:
		return fv.Native(in, args)
	case fv.Builtin != nil:
		return in.callBuiltin(fv.Builtin, args, site)
	case fv.Fn != nil:
		return in.callFunction(fv.Fn, args, fv.Bind)
	}
	panic(in.runtimePanic("invalid memory address or nil pointer dereference (nil func call)"))
}

func fnPkgPath(fn *ssa.Function) string {
	for f := fn; f != nil; f = f.Parent() {
		if f.Pkg != nil {
			return f.Pkg.Pkg.Path()
		}
		if o := f.Origin(); o != nil && o.Pkg != nil {
			return o.Pkg.Pkg.Path()
		}
		if f.Object() != nil && f.Object().Pkg() != nil {
			return f.Object().Pkg().Path()
		}
	}
	return ""
}

func matchPattern(pat, name string) bool {
	if strings.HasSuffix(pat, "*") {
		return strings.HasPrefix(name, strings.TrimSuffix(pat, "*"))
	}
	return pat == name
}

var defaultHavoc = []string{
	"github.com/gotid/god/lib/logx.*", "(*github.com/gotid/god/lib/logx.*",
	"github.com/gotid/god/lib/logc.*",
	"github.com/gotid/god/lib/stat.Report", "github.com/gotid/god/lib/stat.*",
	"(*github.com/gotid/god/lib/stat.*",
	"github.com/gotid/god/lib/trace.*",
	"log.*", "(*log.Logger).*",
}

func (in *Interp) isHavoc(name string) bool {
	for _, p := range in.Cfg.Havoc {
		if strings.HasPrefix(p, "!") && matchPattern(p[1:], name) {
			return false
		}
	}
	for _, p := range in.Cfg.Havoc {
		if matchPattern(p, name) {
			return true
		}
	}
	for _, p := range defaultHavoc {
		if matchPattern(p, name) {
			return true
		}
	}
	return false
}

func (in *Interp) havocResult(fn *ssa.Function, name string) Value {
	in.HavocHit[name] = true
	return in.havocSig(fn.Signature, name)
}

// havocSig builds unconstrained results for a skipped call: scalars are
// fresh symbolic values, interfaces inert opaque objects (their methods are
// no-ops returning havoc), pointers fresh zero objects.
func (in *Interp) havocSig(sig *types.Signature, name string) Value {
	res := sig.Results()
	mk := func(t types.Type) Value {
		if s, ok := sortOf(t); ok {
			return in.Eng.Fresh("havoc:"+name, s)
		}
		switch u := t.Underlying().(type) {
		case *types.Interface:
			if types.Identical(t, types.Universe.Lookup("error").Type()) {
				return Iface{}
			}
			ot := opaqueType("havoc:" + name)
			return Iface{T: ot, V: Opaque{ID: in.newID(), T: ot}}
		case *types.Pointer:
			return Ptr{in.newCell(u.Elem())}
		}
		return in.zero(t)
	}
	switch res.Len() {
	case 0:
		return nil
	case 1:
		return mk(res.At(0).Type())
	}
	tv := make(Tuple, res.Len())
	for i := range tv {
		tv[i] = mk(res.At(i).Type())
	}
	return tv
}

func (in *Interp) callFunction(fn *ssa.Function, args []Value, bind []Value) Value {
	name := fn.String()
	if fn.Name() == "init" && fn.Parent() == nil && fn.Synthetic != "" && fn.Pkg != nil && len(args) == 0 {
		// package initializer called from another initializer: packages are
		// initialised on demand (first access to one of their globals)
		// (standard-library packages on the stdInit list are initialised only
		// when one of their globals is first read: their tables are large)
		if pp := fn.Pkg.Pkg.Path(); in.pkgInit(pp) && !stdInit[pp] {
			in.ensureInit(fn.Pkg)
		}
		return nil
	}
	if fn.Pkg != nil && fn.Pkg == in.harnessPkg && strings.HasPrefix(fn.Name(), "verif") && fn.Parent() == nil {
		if h, ok := nondetAPI[fn.Name()]; ok {
			return h(in, fn, args)
		}
	}
	if target, ok := in.Cfg.Stubs[name]; ok {
		in.StubsHit[name] = true
		sf := in.harnessPkg.Func(target)
		if sf == nil {
			panic(in.bug("stub target %s not found in harness package", target))
		}
		if sf != fn {
			return in.callFunction(sf, args, nil)
		}
	}
	// a package the harness explicitly asks to execute from its own source is
	// not replaced by engine intrinsics
	if _, isIntr := intrinsics[name]; isIntr && intrinsicOptOut[fnPkgPath(fn)] {
		for _, p := range in.Cfg.Execute {
			if p == fnPkgPath(fn) {
				if fn.Blocks == nil && fn.Pkg != nil {
					fn.Pkg.Build()
				}
				return in.runFunction(fn, args, bind)
			}
		}
	}
	// an explicit harness-level havoc entry takes precedence over engine intrinsics
	for _, p := range in.Cfg.Havoc {
		if !strings.HasPrefix(p, "!") && matchPattern(p, name) {
			return in.havocResult(fn, name)
		}
	}
	if h, ok := intrinsics[name]; ok {
		in.IntrHit[name] = true
		if in.Cfg.SchedFork > 0 && isSyncOpName(name) {
			in.preemptPoint(name)
		}
		return h(in, fn, args)
	}
	if o := fn.Origin(); o != nil {
		if h, ok := intrinsics[o.String()]; ok {
			in.IntrHit[o.String()] = true
			return h(in, fn, args)
		}
	}
	if in.isHavoc(name) {
		return in.havocResult(fn, name)
	}
	if fn.Blocks == nil && fn.Pkg != nil {
		fn.Pkg.Build()
	}
	if fn.Blocks == nil {
		if in.inInit > 0 {
			return in.havocResult(fn, name)
		}
		panic(in.inconclusive("unmodelled call (no body): %s", name))
	}
	if fn.Synthetic == "" || fn.Pkg != nil {
		pp := fnPkgPath(fn)
		if pp != "" && !in.pkgExecuted(pp) && !fnAllowed[name] {
			if in.inInit > 0 {
				return in.havocResult(fn, name)
			}
			panic(in.inconclusive("unmodelled call (package %s not on execute list): %s", pp, name))
		}
	}
	return in.runFunction(fn, args, bind)
}

func (in *Interp) runtimePanic(msg string) *GoPanic {
	return &GoPanic{V: Iface{T: opaqueType("runtime.Error"), V: StrOf("runtime error: " + msg)}, Msg: "runtime error: " + msg, Stack: in.where()}
}

const maxDepth = 400

func (in *Interp) runFunction(fn *ssa.Function, args []Value, bind []Value) (ret Value) {
	if fn.Blocks == nil {
		panic(in.inconclusive("no body: %s", fn))
	}
	in.FuncsSeen[fn.String()] = true
	in.depth++
	if in.depth > maxDepth {
		panic(in.inconclusive("recursion depth bound %d exceeded in %s", maxDepth, fn))
	}
	g := in.cur
	fr := &Frame{fn: fn, env: make(map[ssa.Value]Value, 16), caller: g.fr, bind: bind}
	g.fr = fr
	defer func() {
		in.depth--
		g.fr = fr.caller
	}()
	if len(args) != len(fn.Params) {
		panic(in.bug("call %s: %d args for %d params", fn, len(args), len(fn.Params)))
	}
	for i, p := range fn.Params {
		fr.env[p] = args[i]
	}
	fr.block = fn.Blocks[0]

	defer func() {
		r := recover()
		if r == nil {
			return
		}
		gp, ok := r.(*GoPanic)
		if !ok {
			panic(r)
		}
		// Go-level panic: run this frame's defers
		fr.panicking = gp
		in.runDefers(fr)
		if fr.panicking != nil {
			panic(fr.panicking)
		}
		// recovered: continue at the Recover block
		if fn.Recover != nil {
			fr.prev = fr.block
			fr.block = fn.Recover
			ret = in.runBlocks(fr)
			return
		}
		// no named results: return zero values
		res := fn.Signature.Results()
		switch res.Len() {
		case 0:
			ret = nil
		case 1:
			ret = in.zero(res.At(0).Type())
		default:
			ret = in.zero(res)
		}
	}()
	return in.runBlocks(fr)
}

func (in *Interp) runDefers(fr *Frame) {
	for len(fr.defers) > 0 {
		d := fr.defers[len(fr.defers)-1]
		fr.defers = fr.defers[:len(fr.defers)-1]
		in.invokeDeferred(fr, d)
	}
}

func (in *Interp) invokeDeferred(fr *Frame, d deferred) {
	// A panic inside the deferred call replaces the current one (host panic
	// propagates out of runDefers through the caller's handler).
	g := in.cur
	g.deferFrames = append(g.deferFrames, fr)
	defer func() { g.deferFrames = g.deferFrames[:len(g.deferFrames)-1] }()
	in.callValue(d.fn, d.args, nil)
}

type ctl int

const (
	ctlNext ctl = iota
	ctlJump
	ctlReturn
)

func (in *Interp) runBlocks(fr *Frame) Value {
	for {
		b := fr.block
		jumped := false
		for _, instr := range b.Instrs {
			fr.curInstr = instr
			in.steps++
			if in.aborted {
				panic(pathAbort{"done", "aborted"})
			}
			c := in.exec(fr, instr)
			if c == ctlReturn {
				return fr.result
			}
			if c == ctlJump {
				jumped = true
				break
			}
		}
		if !jumped {
			panic(in.bug("block %d of %s fell through", b.Index, fr.fn))
		}
	}
}

func (in *Interp) jump(fr *Frame, to *ssa.BasicBlock) {
	from := fr.block
	if to.Dominates(from) {
		if fr.back == nil {
			fr.back = map[int]int{}
		}
		fr.back[to.Index]++
		n := fr.back[to.Index]
		if n > in.UnwindMax {
			in.UnwindMax = n
		}
		if n > in.Cfg.Unwind {
			panic(in.inconclusive("unwinding bound %d exceeded in %s block %d", in.Cfg.Unwind, fr.fn, to.Index))
		}
	}
	fr.prev = from
	fr.block = to
}

func (in *Interp) condBool(v Value) *term.Term {
	t, ok := v.(*term.Term)
	if !ok || t.Sort.K != term.KBool {
		panic(in.bug("expected bool, got %T", v))
	}
	return t
}

func (in *Interp) exec(fr *Frame, instr ssa.Instruction) ctl {
	switch x := instr.(type) {
	case *ssa.DebugRef:
		return ctlNext
	case *ssa.Alloc:
		c := in.newCell(x.Type().(*types.Pointer).Elem())
		fr.env[x] = Ptr{c}
	case *ssa.Store:
		p := in.ptrOf(in.get(fr, x.Addr))
		in.store(p, in.get(fr, x.Val))
	case *ssa.UnOp:
		fr.env[x] = in.unop(fr, x)
	case *ssa.BinOp:
		fr.env[x] = in.binop(x.Op, in.get(fr, x.X), in.get(fr, x.Y), x.X.Type(), x.Y.Type())
	case *ssa.Phi:
		// all phis of a block read their operands from the predecessor state
		// simultaneously; since SSA phis cannot depend on each other's new
		// value within the same block except via explicit cycles, evaluate
		// them all first.
		if x == firstPhi(fr.block) {
			idx := -1
			for i, p := range fr.block.Preds {
				if p == fr.prev {
					idx = i
					break
				}
			}
			if idx < 0 {
				panic(in.bug("phi: predecessor not found"))
			}
			var phis []*ssa.Phi
			var vals []Value
			for _, ins := range fr.block.Instrs {
				ph, ok := ins.(*ssa.Phi)
				if !ok {
					break
				}
				phis = append(phis, ph)
				vals = append(vals, in.get(fr, ph.Edges[idx]))
			}
			for i, ph := range phis {
				fr.env[ph] = vals[i]
			}
		}
	case *ssa.If:
		c := in.condBool(in.get(fr, x.Cond))
		if in.Eng.Branch(c) {
			in.jump(fr, fr.block.Succs[0])
		} else {
			in.jump(fr, fr.block.Succs[1])
		}
		return ctlJump
	case *ssa.Jump:
		in.jump(fr, fr.block.Succs[0])
		return ctlJump
	case *ssa.Return:
		switch len(x.Results) {
		case 0:
			fr.result = nil
		case 1:
			fr.result = in.get(fr, x.Results[0])
		default:
			tv := make(Tuple, len(x.Results))
			for i, r := range x.Results {
				tv[i] = in.get(fr, r)
			}
			fr.result = tv
		}
		return ctlReturn
	case *ssa.RunDefers:
		in.runDefers(fr)
	case *ssa.Panic:
		v := in.get(fr, x.X)
		panic(&GoPanic{V: v, Stack: in.where()})
	case *ssa.Call:
		fr.env[x] = in.doCall(fr, &x.Call, x)
	case *ssa.Defer:
		fv, args := in.prepareCall(fr, &x.Call)
		fr.defers = append(fr.defers, deferred{fn: fv, args: args})
	case *ssa.Go:
		fv, args := in.prepareCall(fr, &x.Call)
		in.spawn(fr, fv, args, x)
	case *ssa.Extract:
		fr.env[x] = in.get(fr, x.Tuple).(Tuple)[x.Index]
	case *ssa.FieldAddr:
		p := in.ptrOf(in.get(fr, x.X))
		fr.env[x] = Ptr{p.F[x.Field]}
	case *ssa.Field:
		fr.env[x] = in.get(fr, x.X).(StructV).F[x.Field]
	case *ssa.IndexAddr:
		base := in.get(fr, x.X)
		idx := in.get(fr, x.Index).(*term.Term)
		switch b := base.(type) {
		case Slice:
			i := in.concIndex(idx, len(b.Cells), isSigned(x.Index.Type()))
			fr.env[x] = Ptr{b.Cells[i]}
		case Ptr:
			c := in.ptrOf(b)
			i := in.concIndex(idx, len(c.F), isSigned(x.Index.Type()))
			fr.env[x] = Ptr{c.F[i]}
		default:
			panic(in.bug("IndexAddr on %T", base))
		}
	case *ssa.Index:
		base := in.get(fr, x.X)
		idx := in.get(fr, x.Index).(*term.Term)
		switch b := base.(type) {
		case ArrayV:
			i := in.concIndex(idx, len(b.E), isSigned(x.Index.Type()))
			fr.env[x] = b.E[i]
		case Str:
			fr.env[x] = in.strIndex(b, idx, isSigned(x.Index.Type()))
		default:
			panic(in.bug("Index on %T", base))
		}
	case *ssa.Slice:
		fr.env[x] = in.sliceOp(fr, x)
	case *ssa.MakeSlice:
		lenT, capT := in.get(fr, x.Len).(*term.Term), in.get(fr, x.Cap).(*term.Term)
		// a symbolic length or capacity that may be negative: the values for which
		// the runtime panics are a path of their own (a runtime panic), not a reason
		// to give up; the non-negative rest is concretised as before
		in.negativeLenPanics(lenT, "makeslice: len out of range")
		in.negativeLenPanics(capT, "makeslice: cap out of range")
		n := in.concLen(lenT, "makeslice len")
		cp := in.concLen(capT, "makeslice cap")
		if cp < n {
			panic(in.runtimePanic("makeslice: cap out of range"))
		}
		et := x.Type().Underlying().(*types.Slice).Elem()
		cells := make([]*Cell, cp)
		for i := range cells {
			cells[i] = in.newCell(et)
		}
		fr.env[x] = Slice{cells[:n]}
	case *ssa.MakeMap:
		mt := x.Type().Underlying().(*types.Map)
		fr.env[x] = MapV{&MapObj{KT: mt.Key(), VT: mt.Elem(), ID: in.newID()}}
	case *ssa.MapUpdate:
		m := in.get(fr, x.Map).(MapV)
		if m.M == nil {
			panic(in.runtimePanic("assignment to entry in nil map"))
		}
		in.mapSet(m.M, in.get(fr, x.Key), in.get(fr, x.Value))
	case *ssa.Lookup:
		base := in.get(fr, x.X)
		switch b := base.(type) {
		case Str:
			fr.env[x] = in.strIndex(b, in.get(fr, x.Index).(*term.Term), isSigned(x.Index.Type()))
		case MapV:
			vt := x.X.Type().Underlying().(*types.Map).Elem()
			v, ok := in.mapGet(b.M, in.get(fr, x.Index))
			if !ok {
				v = in.zero(vt)
			}
			if x.CommaOk {
				fr.env[x] = Tuple{v, term.BoolC(ok)}
			} else {
				fr.env[x] = v
			}
		default:
			panic(in.bug("Lookup on %T", base))
		}
	case *ssa.Range:
		switch b := in.get(fr, x.X).(type) {
		case Str:
			s := b
			fr.env[x] = &RangeIter{Str: &s, IsStr: true}
		case MapV:
			it := &RangeIter{Map: b.M}
			if b.M != nil {
				for _, e := range b.M.Entries {
					if !e.Dead {
						it.Snap = append(it.Snap, e)
					}
				}
				if in.Cfg.PermuteMap && len(it.Snap) > 1 {
					if in.Eng.Choose(2, "maporder") == 1 {
						for i, j := 0, len(it.Snap)-1; i < j; i, j = i+1, j-1 {
							it.Snap[i], it.Snap[j] = it.Snap[j], it.Snap[i]
						}
					}
				}
			}
			fr.env[x] = it
		default:
			panic(in.bug("Range on %T", b))
		}
	case *ssa.Next:
		fr.env[x] = in.next(fr, x)
	case *ssa.MakeClosure:
		fn := x.Fn.(*ssa.Function)
		bind := make([]Value, len(x.Bindings))
		for i, b := range x.Bindings {
			bind[i] = in.get(fr, b)
		}
		fr.env[x] = FuncV{Fn: fn, Bind: bind}
	case *ssa.MakeInterface:
		fr.env[x] = Iface{T: x.X.Type(), V: in.get(fr, x.X)}
	case *ssa.ChangeInterface:
		fr.env[x] = in.get(fr, x.X)
	case *ssa.ChangeType:
		fr.env[x] = in.get(fr, x.X)
	case *ssa.Convert:
		fr.env[x] = in.convert(in.get(fr, x.X), x.X.Type(), x.Type())
	case *ssa.MultiConvert:
		fr.env[x] = in.convert(in.get(fr, x.X), x.X.Type(), x.Type())
	case *ssa.TypeAssert:
		fr.env[x] = in.typeAssert(fr, x)
	case *ssa.SliceToArrayPointer:
		s := in.get(fr, x.X).(Slice)
		at := x.Type().(*types.Pointer).Elem().Underlying().(*types.Array)
		n := int(at.Len())
		if len(s.Cells) < n {
			panic(in.runtimePanic("cannot convert slice to array pointer: length mismatch"))
		}
		if s.Cells == nil {
			fr.env[x] = Ptr{}
		} else {
			fr.env[x] = Ptr{&Cell{T: x.Type().(*types.Pointer).Elem(), F: s.Cells[:n:n], ID: in.newID()}}
		}
	case *ssa.MakeChan:
		n := in.concLen(in.get(fr, x.Size).(*term.Term), "makechan")
		fr.env[x] = ChanV{&ChanObj{Cap: n, ID: in.newID(), ElemT: x.Type().Underlying().(*types.Chan).Elem()}}
	case *ssa.Send:
		ch := in.get(fr, x.Chan).(ChanV)
		in.chanSend(ch.C, in.get(fr, x.X))
	case *ssa.Select:
		fr.env[x] = in.selectOp(fr, x)
	default:
		panic(in.bug("unsupported instruction %T: %s", instr, instr))
	}
	return ctlNext
}

func firstPhi(b *ssa.BasicBlock) *ssa.Phi {
	if len(b.Instrs) > 0 {
		if p, ok := b.Instrs[0].(*ssa.Phi); ok {
			return p
		}
	}
	return nil
}

func (in *Interp) ptrOf(v Value) *Cell {
	switch p := v.(type) {
	case Ptr:
		if p.C == nil {
			panic(in.runtimePanic("invalid memory address or nil pointer dereference"))
		}
		if po, ok := p.C.V.(poison); ok {
			panic(in.inconclusive("use of unmodelled foreign global %s (no init is run for packages outside the repository)", po.name))
		}
		return p.C
	case Opaque:
		panic(in.inconclusive("dereference of opaque object %s", p.T))
	}
	panic(in.bug("ptrOf: %T", v))
}

// concIndex turns an index term into a concrete in-range index, forking when
// symbolic; the out-of-range alternative raises the Go runtime panic.
func (in *Interp) concIndex(idx *term.Term, n int, signed bool) int {
	if idx.IsConst() {
		var i int64
		if signed {
			i = idx.SignedVal()
		} else {
			i = int64(idx.U)
			if idx.U > 1<<62 {
				i = -1
			}
		}
		if i < 0 || i >= int64(n) {
			panic(in.runtimePanic(fmt.Sprintf("index out of range [%d] with length %d", i, n)))
		}
		return int(i)
	}
	alts := make([]*term.Term, n+1)
	var inRange []*term.Term
	for i := 0; i < n; i++ {
		alts[i] = term.Eq(idx, term.BVC(idx.Sort.W, uint64(i)))
		inRange = append(inRange, alts[i])
	}
	alts[n] = term.Not(term.Or(inRange...))
	k := in.Eng.Fork(alts, "index")
	if k == n {
		panic(in.runtimePanic(fmt.Sprintf("index out of range [symbolic] with length %d", n)))
	}
	return k
}

// concLen concretises a length-like term (fork over small values).
func (in *Interp) negativeLenPanics(t *term.Term, msg string) {
	if t.IsConst() {
		return
	}
	neg := term.SLt(t, term.BVC(t.Sort.W, 0))
	if in.Eng.Fork([]*term.Term{neg, term.Not(neg)}, "neglen") == 0 {
		panic(in.runtimePanic(msg))
	}
}

func (in *Interp) concLen(t *term.Term, what string) int {
	if t.IsConst() {
		v := t.SignedVal()
		if v < 0 {
			panic(in.runtimePanic(what + ": len out of range"))
		}
		if v > 1<<24 {
			panic(in.inconclusive("%s: concrete length %d too large", what, v))
		}
		return int(v)
	}
	return in.Eng.ConcretizeSmall(t, what)
}

func (in *Interp) strIndex(s Str, idx *term.Term, signed bool) Value {
	if idx.IsConst() {
		i := in.concIndex(idx, len(s.B), signed)
		return s.B[i]
	}
	i := in.concIndex(idx, len(s.B), signed)
	return s.B[i]
}

func (in *Interp) prepareCall(fr *Frame, call *ssa.CallCommon) (FuncV, []Value) {
	var args []Value
	var fv FuncV
	if call.IsInvoke() {
		recv := in.get(fr, call.Value)
		iv, ok := recv.(Iface)
		if !ok {
			panic(in.bug("invoke on %T", recv))
		}
		if iv.T == nil {
			panic(in.runtimePanic("invalid memory address or nil pointer dereference (nil interface method call " + call.Method.Name() + ")"))
		}
		fv = in.lookupMethod(iv, call.Method)
		args = append(args, iv.V)
	} else {
		v := in.get(fr, call.Value)
		f, ok := v.(FuncV)
		if !ok {
			panic(in.bug("call of %T", v))
		}
		fv = f
	}
	for _, a := range call.Args {
		args = append(args, in.get(fr, a))
	}
	return fv, args
}

func (in *Interp) lookupMethod(iv Iface, m *types.Func) FuncV {
	if iv.T == rtypeT {
		return in.rtypeMethod(iv.V.(RType), m)
	}
	if _, isOpaque := iv.V.(Opaque); isOpaque || strings.HasPrefix(iv.T.String(), "opaque:") {
		name := "(" + iv.T.String() + ")." + m.Name()
		if target, ok := in.Cfg.Stubs[name]; ok {
			sf := in.harnessPkg.Func(target)
			if sf == nil {
				panic(in.bug("stub target %s not found", target))
			}
			return FuncV{Fn: sf}
		}
		if strings.HasPrefix(iv.T.String(), "opaque:havoc:") {
			sig := m.Type().(*types.Signature)
			hn := iv.T.String() + "." + m.Name()
			return FuncV{Native: func(in *Interp, args []Value) Value {
				in.HavocHit["method on inert havoc object: "+hn] = true
				return in.havocSig(sig, hn)
			}}
		}
		if m.Name() == "Error" || m.Name() == "String" {
			if eo := in.errObjOf(iv); eo != nil && m.Name() == "Error" {
				// engine-made error (fmt.Errorf, grpc status): its real message
				msg := eo.msg
				return FuncV{Native: func(in *Interp, args []Value) Value { return msg }}
			}
			if s, ok := iv.V.(Str); ok {
				return FuncV{Native: func(in *Interp, args []Value) Value { return s }}
			}
			s := StrOf("<" + iv.T.String() + ">")
			return FuncV{Native: func(in *Interp, args []Value) Value { return s }}
		}
		if h, ok := opaqueMethods[iv.T.String()+"."+m.Name()]; ok {
			// engine-modelled object (intr_*.go), e.g. the FileInfo of the model file system
			return FuncV{Native: h}
		}
		panic(in.inconclusive("method %s on opaque value %s", m.Name(), iv.T))
	}
	fn := in.Prog.LookupMethod(iv.T, m.Pkg(), m.Name())
	if fn == nil {
		panic(in.bug("method %s not found on %s", m.Name(), iv.T))
	}
	return FuncV{Fn: fn}
}

func (in *Interp) doCall(fr *Frame, call *ssa.CallCommon, site ssa.Instruction) (ret Value) {
	fv, args := in.prepareCall(fr, call)
	if in.inInit > 0 && fr.fn.Name() == "init" && fr.fn.Synthetic != "" && fr.fn.Pkg != in.harnessPkgInitGuard() {
		// Package initialisation is best effort: an initialiser that cannot
		// be modelled (or panics) is replaced by an unconstrained result and
		// recorded, so that the remaining globals still get their values.
		g := in.cur
		saveFr, saveDepth := g.fr, in.depth
		defer func() {
			if r := recover(); r != nil {
				reason := ""
				switch x := r.(type) {
				case *GoPanic:
					reason = "panic: " + in.panicText(x)
				case pathAbort:
					if x.kind != "inconclusive" {
						panic(r)
					}
					reason = x.reason
					if i := strings.Index(reason, "\n"); i > 0 {
						reason = reason[:i]
					}
				default:
					panic(r)
				}
				g.fr, in.depth = saveFr, saveDepth
				name := "?"
				if fv.Fn != nil {
					name = fv.Fn.String()
				}
				in.HavocHit["init-time call replaced by havoc: "+name+" ("+reason+")"] = true
				ret = in.havocSig(call.Signature(), "init:"+name)
			}
		}()
	}
	return in.callValue(fv, args, site)
}

func (in *Interp) harnessPkgInitGuard() *ssa.Package { return nil }

func (in *Interp) typeAssert(fr *Frame, x *ssa.TypeAssert) Value {
	v := in.get(fr, x.X)
	iv, ok := v.(Iface)
	if !ok {
		panic(in.bug("TypeAssert on %T", v))
	}
	at := x.AssertedType
	var okk bool
	var res Value
	if iv.T != nil {
		if it, isIface := at.Underlying().(*types.Interface); isIface {
			if strings.HasPrefix(iv.T.String(), "opaque:") {
				// an opaque value is an error; the engine's own runtime panics (opaque:runtime.Error)
				// also satisfy runtime.Error (Error + RuntimeError), as the real ones do
				okk = true
				for i := 0; i < it.NumMethods(); i++ {
					name := it.Method(i).Name()
					if name != "Error" && !(name == "RuntimeError" && iv.T.String() == "opaque:runtime.Error") {
						okk = false
					}
				}
			} else {
				okk = types.Implements(iv.T, it)
			}
			res = iv
		} else {
			okk = types.Identical(iv.T, at)
			res = iv.V
		}
	}
	if x.CommaOk {
		if !okk {
			res = in.zero(at)
		}
		return Tuple{res, term.BoolC(okk)}
	}
	if !okk {
		got := "nil"
		if iv.T != nil {
			got = iv.T.String()
		}
		panic(in.runtimePanic(fmt.Sprintf("interface conversion: interface is %s, not %s", got, at)))
	}
	return res
}

func (in *Interp) sliceOp(fr *Frame, x *ssa.Slice) Value {
	base := in.get(fr, x.X)
	var lo, hi, mx *term.Term
	if x.Low != nil {
		lo = in.get(fr, x.Low).(*term.Term)
	}
	if x.High != nil {
		hi = in.get(fr, x.High).(*term.Term)
	}
	if x.Max != nil {
		mx = in.get(fr, x.Max).(*term.Term)
	}
	bound := func(t *term.Term, def, max int, what string) int {
		if t == nil {
			return def
		}
		if t.IsConst() {
			v := t.SignedVal()
			if v < 0 || v > int64(max) {
				panic(in.runtimePanic(fmt.Sprintf("slice bounds out of range [%s %d] with capacity %d", what, v, max)))
			}
			return int(v)
		}
		// symbolic bound: fork over 0..max plus out-of-range
		alts := make([]*term.Term, max+2)
		var ins []*term.Term
		for i := 0; i <= max; i++ {
			alts[i] = term.Eq(t, term.BVC(t.Sort.W, uint64(i)))
			ins = append(ins, alts[i])
		}
		alts[max+1] = term.Not(term.Or(ins...))
		k := in.Eng.Fork(alts, "slicebound")
		if k == max+1 {
			panic(in.runtimePanic("slice bounds out of range [symbolic]"))
		}
		return k
	}
	switch b := base.(type) {
	case Str:
		l := bound(lo, 0, len(b.B), "low")
		h := bound(hi, len(b.B), len(b.B), "high")
		if l > h {
			panic(in.runtimePanic(fmt.Sprintf("slice bounds out of range [%d:%d]", l, h)))
		}
		return Str{b.B[l:h:h]}
	case Slice:
		c := cap(b.Cells)
		l := bound(lo, 0, c, "low")
		h := bound(hi, len(b.Cells), c, "high")
		m := bound(mx, c, c, "max")
		if l > h || h > m {
			panic(in.runtimePanic(fmt.Sprintf("slice bounds out of range [%d:%d:%d]", l, h, m)))
		}
		if b.Cells == nil {
			return Slice{}
		}
		return Slice{b.Cells[:c][l:h:m]}
	case Ptr:
		cell := in.ptrOf(b)
		c := len(cell.F)
		l := bound(lo, 0, c, "low")
		h := bound(hi, c, c, "high")
		m := bound(mx, c, c, "max")
		if l > h || h > m {
			panic(in.runtimePanic("slice bounds out of range"))
		}
		return Slice{cell.F[l:h:m]}
	}
	panic(in.bug("Slice on %T", base))
}

func (in *Interp) next(fr *Frame, x *ssa.Next) Value {
	it := in.get(fr, x.Iter).(*RangeIter)
	if it.IsStr {
		s := it.Str
		if it.Pos >= len(s.B) {
			return Tuple{term.False, term.BVC(64, 0), term.BVC(32, 0)}
		}
		b := s.B[it.Pos]
		i := it.Pos
		if b.IsConst() {
			if b.U < 0x80 {
				it.Pos++
				return Tuple{term.True, term.BVC(64, uint64(i)), term.BVC(32, b.U)}
			}
			// concrete multi-byte: decode with host
			cs, ok := Str{s.B[it.Pos:min(len(s.B), it.Pos+4)]}.Concrete()
			if !ok {
				panic(in.inconclusive("range over string: symbolic continuation bytes"))
			}
			for _, r := range cs {
				n := len(string(r))
				if r == 0xFFFD {
					n = 1
				}
				it.Pos += n
				return Tuple{term.True, term.BVC(64, uint64(i)), term.BVC(32, uint64(r))}
			}
		}
		if !in.Eng.Branch(term.ULt(b, term.BVC(8, 0x80))) {
			panic(in.inconclusive("range over string with symbolic non-ASCII byte (harness must assume ASCII)"))
		}
		it.Pos++
		return Tuple{term.True, term.BVC(64, uint64(i)), term.ZExt(b, 32)}
	}
	// map
	mt := x.Iter.(*ssa.Range).X.Type().Underlying().(*types.Map)
	for it.Pos < len(it.Snap) {
		e := it.Snap[it.Pos]
		it.Pos++
		if e.Dead {
			continue
		}
		return Tuple{term.True, e.K, e.V}
	}
	return Tuple{term.False, in.zero(mt.Key()), in.zero(mt.Elem())}
}

// ---- maps ----

func (in *Interp) mapFind(m *MapObj, k Value) *mapEntry {
	if m == nil {
		return nil
	}
	for _, e := range m.Entries {
		if e.Dead {
			continue
		}
		eq := in.equal(e.K, k)
		if eq.IsTrue() {
			return e
		}
		if eq.IsFalse() {
			continue
		}
		if in.Eng.Branch(eq) {
			return e
		}
	}
	return nil
}

func (in *Interp) mapGet(m *MapObj, k Value) (Value, bool) {
	e := in.mapFind(m, k)
	if e == nil {
		return nil, false
	}
	return e.V, true
}

func (in *Interp) mapSet(m *MapObj, k, v Value) {
	if e := in.mapFind(m, k); e != nil {
		e.V = v
		return
	}
	m.Entries = append(m.Entries, &mapEntry{K: k, V: v})
}

func (in *Interp) mapDelete(m *MapObj, k Value) {
	if e := in.mapFind(m, k); e != nil {
		e.Dead = true
		// compact
		out := m.Entries[:0]
		for _, x := range m.Entries {
			if !x.Dead {
				out = append(out, x)
			}
		}
		m.Entries = out
	}
}

func (in *Interp) mapLen(m *MapObj) int {
	if m == nil {
		return 0
	}
	n := 0
	for _, e := range m.Entries {
		if !e.Dead {
			n++
		}
	}
	return n
}

func sortedKeys(m map[string]bool) []string {
	var ks []string
	for k := range m {
		ks = append(ks, k)
	}
	sort.Strings(ks)
	return ks
}
