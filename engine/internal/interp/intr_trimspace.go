package interp

// strings.TrimSpace: the stdlib body reads the package-level table
// strings.asciiSpace (a foreign global, not initialised by the engine).
// Concrete strings use the host function; symbolic bytes fork on "is ASCII
// white space" from both ends (a symbolic byte >= 0x80 is inconclusive: it
// could start a multi-byte Unicode space).

import (
	"strings"

	"golang.org/x/tools/go/ssa"

	"verif/engine/internal/term"
)

func init() {
	reg("strings.TrimSpace", func(in *Interp, fn *ssa.Function, args []Value) Value {
		s := args[0].(Str)
		if c, ok := s.Concrete(); ok {
			return StrOf(strings.TrimSpace(c))
		}
		isSpace := func(b *term.Term) bool {
			if b.IsConst() {
				if b.U >= 0x80 {
					panic(in.inconclusive("strings.TrimSpace: non-ASCII byte next to symbolic bytes"))
				}
				return b.U == ' ' || (b.U >= '\t' && b.U <= '\r')
			}
			if !in.Eng.Branch(term.ULt(b, term.BVC(8, 0x80))) {
				panic(in.inconclusive("strings.TrimSpace: symbolic non-ASCII byte (harness must assume ASCII)"))
			}
			sp := term.Or(term.Eq(b, term.BVC(8, ' ')), term.And(term.ULe(term.BVC(8, '\t'), b), term.ULe(b, term.BVC(8, '\r'))))
			return in.Eng.Branch(sp)
		}
		lo, hi := 0, len(s.B)
		for lo < hi && isSpace(s.B[lo]) {
			lo++
		}
		for hi > lo && isSpace(s.B[hi-1]) {
			hi--
		}
		return Str{s.B[lo:hi:hi]}
	})
}
