package interp

import (
	"fmt"
	"go/token"
	"go/types"
	"unicode/utf8"

	"golang.org/x/tools/go/ssa"

	"verif/engine/internal/term"
)

func (in *Interp) unop(fr *Frame, x *ssa.UnOp) Value {
	v := in.get(fr, x.X)
	switch x.Op {
	case token.MUL: // load
		return in.load(in.ptrOf(v))
	case token.NOT:
		return term.Not(v.(*term.Term))
	case token.SUB:
		t := v.(*term.Term)
		if t.Sort.K == term.KFP {
			return term.FNeg(t)
		}
		return term.Neg(t)
	case token.XOR:
		return term.BNot(v.(*term.Term))
	case token.ARROW:
		ch := v.(ChanV)
		val, ok := in.chanRecv(ch.C, x.X.Type().Underlying().(*types.Chan).Elem())
		if x.CommaOk {
			return Tuple{val, term.BoolC(ok)}
		}
		return val
	}
	panic(in.bug("unop %s", x.Op))
}

// shiftCount adapts a shift count term to width w with Go semantics
// (counts >= w behave like w; SMT shifts already saturate).
func (in *Interp) shiftCount(y *term.Term, ySigned bool, w int) *term.Term {
	if ySigned {
		neg := term.SLt(y, term.BVC(y.Sort.W, 0))
		if !neg.IsFalse() {
			if in.Eng.Branch(neg) {
				panic(in.runtimePanic("negative shift amount"))
			}
		}
	}
	yw := y.Sort.W
	if yw == w {
		return y
	}
	if yw < w {
		return term.ZExt(y, w)
	}
	// wider count: saturate
	big := term.ULe(term.BVC(yw, uint64(w)), y)
	return term.Ite(big, term.BVC(w, uint64(w)), term.Extract(y, w-1, 0))
}

func (in *Interp) binop(op token.Token, a, b Value, at, bt types.Type) Value {
	switch op {
	case token.EQL:
		return in.equal(a, b)
	case token.NEQ:
		return term.Not(in.equal(a, b))
	}
	switch x := a.(type) {
	case Str:
		y := b.(Str)
		switch op {
		case token.ADD:
			nb := make([]*term.Term, 0, len(x.B)+len(y.B))
			nb = append(nb, x.B...)
			nb = append(nb, y.B...)
			return Str{nb}
		case token.LSS:
			return strLess(x, y)
		case token.GTR:
			return strLess(y, x)
		case token.LEQ:
			return term.Not(strLess(y, x))
		case token.GEQ:
			return term.Not(strLess(x, y))
		}
		panic(in.bug("string binop %s", op))
	case *term.Term:
		y, ok := b.(*term.Term)
		if !ok {
			panic(in.bug("binop %s: term vs %T", op, b))
		}
		switch x.Sort.K {
		case term.KBool:
			switch op {
			case token.AND, token.LAND:
				return term.And(x, y)
			case token.OR, token.LOR:
				return term.Or(x, y)
			}
		case term.KFP:
			switch op {
			case token.ADD:
				return term.FAdd(x, y)
			case token.SUB:
				return term.FSub(x, y)
			case token.MUL:
				return term.FMul(x, y)
			case token.QUO:
				return term.FDiv(x, y)
			case token.LSS:
				return term.FLt(x, y)
			case token.LEQ:
				return term.FLe(x, y)
			case token.GTR:
				return term.FLt(y, x)
			case token.GEQ:
				return term.FLe(y, x)
			}
		case term.KBV:
			signed := isSigned(at)
			w := x.Sort.W
			switch op {
			case token.ADD:
				return term.Add(x, y)
			case token.SUB:
				return term.Sub(x, y)
			case token.MUL:
				if !x.IsConst() && !y.IsConst() {
					kx, ky := narrowBits(in.Eng.abs.iv(x)), narrowBits(in.Eng.abs.iv(y))
					if kx >= 0 && ky >= 0 && kx+ky <= 40 && kx+ky+8 <= w {
						kk := kx + ky
						if kk == 0 {
							kk = 1
						}
						return term.ZExt(term.Mul(term.Extract(x, kk-1, 0), term.Extract(y, kk-1, 0)), w)
					}
				}
				return term.Mul(x, y)
			case token.QUO, token.REM:
				z := term.Eq(y, term.BVC(w, 0))
				if !z.IsFalse() {
					if in.Eng.Branch(z) {
						panic(in.runtimePanic("integer divide by zero"))
					}
				}
				// (a*c)/c = a when the range facts exclude overflow of a*c
				// (seconds -> time.Duration -> seconds round trips).
				if op == token.QUO && y.IsConst() && x.Op == term.OMul && len(x.Args) == 2 && x.Args[1] == y {
					a, c := x.Args[0], y.SignedVal()
					ia := in.Eng.abs.iv(a)
					if c > 0 && (signed || ia.lo >= 0) {
						lo, o1 := mulOv(ia.lo, c)
						hi, o2 := mulOv(ia.hi, c)
						if !o1 && !o2 && fits(ival{lo, hi}, w) {
							return a
						}
					}
				}
				if !(x.IsConst() && y.IsConst()) {
					kx, ky := narrowBits(in.Eng.abs.iv(x)), narrowBits(in.Eng.abs.iv(y))
					if kx >= 0 && ky >= 0 && kx <= 40 && ky <= 40 {
						kk := kx
						if ky > kk {
							kk = ky
						}
						if kk == 0 {
							kk = 1
						}
						if kk+8 <= w {
							nx, ny := term.Extract(x, kk-1, 0), term.Extract(y, kk-1, 0)
							if op == token.QUO {
								return term.ZExt(term.UDiv(nx, ny), w)
							}
							return term.ZExt(term.URem(nx, ny), w)
						}
					}
				}
				if op == token.QUO {
					if signed {
						return term.SDiv(x, y)
					}
					return term.UDiv(x, y)
				}
				if signed {
					return term.SRem(x, y)
				}
				return term.URem(x, y)
			case token.AND:
				return term.BAnd(x, y)
			case token.OR:
				return term.BOr(x, y)
			case token.XOR:
				return term.BXor(x, y)
			case token.AND_NOT:
				return term.BAnd(x, term.BNot(y))
			case token.SHL:
				return term.Shl(x, in.shiftCount(y, isSigned(bt), w))
			case token.SHR:
				c := in.shiftCount(y, isSigned(bt), w)
				if signed {
					return term.AShr(x, c)
				}
				return term.LShr(x, c)
			case token.LSS:
				if signed {
					return term.SLt(x, y)
				}
				return term.ULt(x, y)
			case token.LEQ:
				if signed {
					return term.SLe(x, y)
				}
				return term.ULe(x, y)
			case token.GTR:
				if signed {
					return term.SLt(y, x)
				}
				return term.ULt(y, x)
			case token.GEQ:
				if signed {
					return term.SLe(y, x)
				}
				return term.ULe(y, x)
			}
		}
	}
	panic(in.bug("binop %s on %T/%T", op, a, b))
}

func (in *Interp) convert(v Value, from, to types.Type) Value {
	fu, tu := from.Underlying(), to.Underlying()
	// scalar <-> scalar
	if fs, ok := sortOf(from); ok {
		if ts, ok2 := sortOf(to); ok2 {
			t := v.(*term.Term)
			switch {
			case fs.K == term.KBV && ts.K == term.KBV:
				if ts.W <= fs.W {
					return term.Extract(t, ts.W-1, 0)
				}
				if isSigned(from) {
					return term.SExt(t, ts.W)
				}
				return term.ZExt(t, ts.W)
			case fs.K == term.KBV && ts.K == term.KFP:
				// (opt-in: "execute": ["conv:narrow"] - the narrowed and the plain form of one
				// source expression are different terms, which costs harnesses that compare a
				// reference float expression with the code's bit for bit)
				// a value the range facts place in [0, 2^k) with k well below the
				// source width is converted from its low k+1 bits (unsigned): the same
				// float, a much smaller circuit for the solver
				if fs.W > 32 && !t.IsConst() && in.convNarrowEnabled() {
					ia := in.Eng.abs.iv(t)
					if ia.lo >= 0 && ia.hi >= 0 && ia.hi < 1<<40 {
						k := 1
						for int64(1)<<uint(k) <= ia.hi {
							k++
						}
						if k+1 < fs.W {
							return term.UBVToF(term.Extract(t, k, 0), ts.W)
						}
					}
				}
				if isSigned(from) {
					return term.SBVToF(t, ts.W)
				}
				return term.UBVToF(t, ts.W)
			case fs.K == term.KFP && ts.K == term.KBV:
				if isSigned(to) {
					// int(float64(a)) = a when the range facts give |a| <= 2^53
					// (every such integer is a float64; truncation leaves it alone)
					if t.Op == term.OSBVToF && fs.W == 64 && len(t.Args) == 1 && t.Args[0].Sort.K == term.KBV && t.Args[0].Sort.W == ts.W {
						ia := in.Eng.abs.iv(t.Args[0])
						if ia.lo >= -(1<<53) && ia.hi <= 1<<53 {
							return t.Args[0]
						}
					}
					// the same for a source narrowed by the conversion above
					if t.Op == term.OUBVToF && fs.W == 64 && len(t.Args) == 1 && t.Args[0].Sort.K == term.KBV && t.Args[0].Sort.W < 53 && t.Args[0].Sort.W < ts.W {
						return term.ZExt(t.Args[0], ts.W)
					}
					return term.FToSBV(t, ts.W)
				}
				return term.FToUBV(t, ts.W)
			case fs.K == term.KFP && ts.K == term.KFP:
				return term.FToF(t, ts.W)
			case fs.K == term.KBool && ts.K == term.KBool:
				return t
			}
		}
	}
	// string conversions
	if tb, ok := tu.(*types.Basic); ok && tb.Info()&types.IsString != 0 {
		switch x := v.(type) {
		case Str:
			return x
		case Slice: // []byte or []rune -> string
			et := fu.(*types.Slice).Elem().Underlying().(*types.Basic)
			if et.Kind() == types.Uint8 {
				b := make([]*term.Term, len(x.Cells))
				for i, c := range x.Cells {
					b[i] = c.V.(*term.Term)
				}
				return Str{b}
			}
			// []rune
			var out []*term.Term
			for _, c := range x.Cells {
				r := c.V.(*term.Term)
				out = append(out, in.runeBytes(r)...)
			}
			return Str{out}
		case *term.Term: // string(rune)
			return Str{in.runeBytes(term.SExt(x, 32))}
		}
	}
	if ts, ok := tu.(*types.Slice); ok {
		if s, ok := v.(Str); ok {
			et := ts.Elem().Underlying().(*types.Basic)
			if et.Kind() == types.Uint8 {
				cells := make([]*Cell, len(s.B))
				for i, b := range s.B {
					cells[i] = &Cell{T: ts.Elem(), V: b, ID: in.newID()}
				}
				return Slice{cells}
			}
			// []rune(string): ASCII or concrete
			var cells []*Cell
			if cs, ok := s.Concrete(); ok {
				for _, r := range cs {
					cells = append(cells, &Cell{T: ts.Elem(), V: term.BVC(32, uint64(r)), ID: in.newID()})
				}
				if cells == nil {
					cells = []*Cell{}
				}
				return Slice{cells}
			}
			for _, b := range s.B {
				if !in.Eng.Branch(term.ULt(b, term.BVC(8, 0x80))) {
					panic(in.inconclusive("[]rune(string) with symbolic non-ASCII byte"))
				}
				cells = append(cells, &Cell{T: ts.Elem(), V: term.ZExt(b, 32), ID: in.newID()})
			}
			if cells == nil {
				cells = []*Cell{}
			}
			return Slice{cells}
		}
	}
	// pointer <-> unsafe.Pointer, and identical-underlying conversions
	switch v.(type) {
	case Ptr, Slice, MapV, ChanV, FuncV, StructV, ArrayV, Iface, Opaque:
		return v
	}
	panic(in.bug("convert %T from %s to %s", v, from, to))
}

// runeBytes encodes a 32-bit rune term as UTF-8 bytes (ASCII if symbolic).
func (in *Interp) runeBytes(r *term.Term) []*term.Term {
	if r.IsConst() {
		rv := rune(int32(r.U))
		if r.SignedVal() < 0 || r.SignedVal() > 0x10FFFF {
			rv = utf8.RuneError
		}
		var buf [4]byte
		n := utf8.EncodeRune(buf[:], rv)
		out := make([]*term.Term, n)
		for i := 0; i < n; i++ {
			out[i] = term.BVC(8, uint64(buf[i]))
		}
		return out
	}
	if !in.Eng.Branch(term.ULt(r, term.BVC(32, 0x80))) {
		panic(in.inconclusive("string(rune) with symbolic non-ASCII rune"))
	}
	return []*term.Term{term.Extract(r, 7, 0)}
}

var _ = fmt.Sprint
