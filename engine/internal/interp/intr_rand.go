package interp

import (
	"go/types"

	"golang.org/x/tools/go/ssa"

	"verif/engine/internal/term"
)

// (*math/rand.Rand).Float64 over a harness-provided rand.Source.
//
// The library code is
//
//	again: f := float64(r.Int63()) / (1 << 63); if f == 1 { goto again }; return f
//
// Executed from SSA the resampling branch would have to be refuted by a
// floating-point feasibility query at every call (and an "unknown" unrolls the
// loop). The intrinsic draws once from the source (a real call of its Int63
// method), computes the same float64 expression and *assumes* the draw is not
// one that is resampled: every value Float64 can return is float64(x)/2^63 != 1
// for some draw x, so "for all returned values" properties lose nothing.
// Natively the real Float64 runs over the same source and the model's draw.
func init() {
	reg("(*math/rand.Rand).Float64", func(in *Interp, fn *ssa.Function, args []Value) Value {
		rc := in.ptrOf(args[0])
		st, ok := rc.T.Underlying().(*types.Struct)
		if !ok {
			panic(in.bug("rand.Rand is not a struct: %s", rc.T))
		}
		for i := 0; i < st.NumFields(); i++ {
			if st.Field(i).Name() != "src" {
				continue
			}
			src, ok := in.load(rc.F[i]).(Iface)
			if !ok || src.T == nil {
				panic(in.runtimePanic("invalid memory address or nil pointer dereference (rand.Rand without source)"))
			}
			it, ok := st.Field(i).Type().Underlying().(*types.Interface)
			if !ok {
				break
			}
			for k := 0; k < it.NumMethods(); k++ {
				m := it.Method(k)
				if m.Name() != "Int63" {
					continue
				}
				fv := in.lookupMethod(src, m)
				x, ok := in.callValue(fv, []Value{src.V}, nil).(*term.Term)
				if !ok {
					panic(in.bug("rand.Source.Int63 did not return a scalar"))
				}
				f := term.FDiv(term.SBVToF(x, 64), term.FC(64, 9223372036854775808.0))
				in.Eng.Assume(term.Not(term.FEq(f, term.FC(64, 1.0))))
				return f
			}
		}
		panic(in.inconclusive("(*math/rand.Rand).Float64: source without Int63"))
	})
}
