package interp

// A small in-engine model file system behind the few package os functions that
// file-handling code of the repository calls directly (os is standard library:
// no //verif:stub trampoline is possible, and native replay uses the real file
// system). Fault-free: every operation succeeds unless the file-system state
// itself makes it fail (missing file, missing parent directory, closed or nil
// handle). Paths are engine strings; two paths denote the same file iff they
// are byte-wise equal (no normalisation, no symlinks, no relative/absolute
// mixing) — harnesses build all paths from one os.MkdirTemp directory.
// Symbolic bytes inside names are taken to be neither '/' nor NUL.
//
// Handles follow inode semantics: a handle keeps writing to the file it was
// opened on after that file has been renamed or removed.

import (
	"fmt"
	"go/types"
	"path/filepath"
	"sort"

	"golang.org/x/tools/go/ssa"

	"verif/engine/internal/term"
)

type fsNode struct {
	path Str
	dir  bool
	data []*term.Term
	live bool
}

type osFS struct {
	nodes []*fsNode
	tmpN  int
	fdN   int
}

type osHandle struct {
	node   *fsNode
	name   Str
	closed bool
	wr, rd bool
	app    bool
	pos    int
	fd     int
}

type osStat struct {
	name Str
	size int
	dir  bool
}

func (in *Interp) osfs() *osFS {
	if f, ok := in.sideTab["os:fs"].(*osFS); ok {
		return f
	}
	f := &osFS{fdN: 3}
	// the roots every harness may rely on
	f.nodes = append(f.nodes, &fsNode{path: StrOf("/"), dir: true, live: true}, &fsNode{path: StrOf("/tmp"), dir: true, live: true})
	in.sideTab["os:fs"] = f
	return f
}

func (in *Interp) fsLookup(p Str) *fsNode {
	for _, n := range in.osfs().nodes {
		if !n.live {
			continue
		}
		eq := strEq(n.path, p)
		if eq.IsTrue() {
			return n
		}
		if eq.IsFalse() {
			continue
		}
		if in.Eng.Branch(eq) {
			return n
		}
	}
	return nil
}

// fsParent: the path up to the last concrete '/' ("" if none, "/" for top level).
func fsParent(p Str) (Str, bool) {
	for i := len(p.B) - 1; i >= 0; i-- {
		if p.B[i].IsConst() && p.B[i].U == '/' {
			if i == 0 {
				return StrOf("/"), true
			}
			return Str{p.B[:i:i]}, true
		}
	}
	return Str{}, false
}

func (in *Interp) fsParentOK(p Str) bool {
	par, ok := fsParent(p)
	if !ok {
		return true // relative name in the (unmodelled) working directory
	}
	n := in.fsLookup(par)
	return n != nil && n.dir
}

func (in *Interp) foreignSentinel(pkg, name string) Iface {
	if p := in.Prog.ImportedPackage(pkg); p != nil {
		if g, ok := p.Members[name].(*ssa.Global); ok {
			if iv, ok := in.globalCell(g).V.(Iface); ok && iv.T != nil {
				return iv
			}
		}
	}
	return Iface{}
}

func (in *Interp) osErr(op string, p Str, sentinel, text string) Iface {
	msg := Str{append(append(StrOf(op+" ").B, p.B...), StrOf(": "+text).B...)}
	return in.newError(msg, in.foreignSentinel("io/fs", sentinel)).(Iface)
}

func (in *Interp) osNotExist(op string, p Str) Iface {
	return in.osErr(op, p, "ErrNotExist", "no such file or directory")
}

func byteSlice(in *Interp, bs []*term.Term) Slice {
	cells := make([]*Cell, len(bs))
	for i, b := range bs {
		cells[i] = &Cell{T: types.Typ[types.Uint8], V: b, ID: in.newID()}
	}
	return Slice{cells}
}

func sliceTerms(v Value) []*term.Term {
	switch x := v.(type) {
	case Str:
		return x.B
	case Slice:
		bs := make([]*term.Term, len(x.Cells))
		for i, c := range x.Cells {
			bs[i] = c.V.(*term.Term)
		}
		return bs
	}
	return nil
}

func (in *Interp) osStatIface(n *fsNode) Iface {
	t := opaqueType("os.fileStat")
	id := in.newID()
	in.sideTab[fmt.Sprintf("os:stat:%d", id)] = &osStat{name: n.path, size: len(n.data), dir: n.dir}
	return Iface{T: t, V: Opaque{ID: id, T: t}}
}

func (in *Interp) osStatOf(v Value) *osStat {
	if o, ok := v.(Opaque); ok {
		if s, ok := in.sideTab[fmt.Sprintf("os:stat:%d", o.ID)].(*osStat); ok {
			return s
		}
	}
	panic(in.bug("FileInfo method on a value that is not a model FileInfo"))
}

// newHandle makes the *os.File value for an open file.
func (in *Interp) osNewHandle(fn *ssa.Function, n *fsNode, name Str, rd, wr, app bool) Ptr {
	ft := fn.Signature.Results().At(0).Type().(*types.Pointer).Elem()
	c := in.newCell(ft)
	fs := in.osfs()
	fs.fdN++
	in.sideTab[fmt.Sprintf("os:file:%d", c.ID)] = &osHandle{node: n, name: name, rd: rd, wr: wr, app: app, fd: fs.fdN}
	return Ptr{c}
}

// osHandleOf: nil for the nil *os.File.
func (in *Interp) osHandleOf(v Value) *osHandle {
	p, ok := v.(Ptr)
	if !ok || p.C == nil {
		return nil
	}
	h, ok := in.sideTab[fmt.Sprintf("os:file:%d", p.C.ID)].(*osHandle)
	if !ok {
		panic(in.inconclusive("*os.File that was not opened through the model file system (os.Stdout etc. are not modelled)"))
	}
	return h
}

func (in *Interp) osOpen(fn *ssa.Function, name Str, flag int, op string) Value {
	const (
		oWRONLY = 0x1
		oRDWR   = 0x2
		oAPPEND = 0x400
		oCREATE = 0x40
		oEXCL   = 0x80
		oTRUNC  = 0x200
	)
	n := in.fsLookup(name)
	if n == nil {
		if flag&oCREATE == 0 {
			return Tuple{Ptr{}, in.osNotExist(op, name)}
		}
		if !in.fsParentOK(name) {
			return Tuple{Ptr{}, in.osNotExist(op, name)}
		}
		n = &fsNode{path: name, live: true}
		fs := in.osfs()
		fs.nodes = append(fs.nodes, n)
	} else {
		if flag&oCREATE != 0 && flag&oEXCL != 0 {
			return Tuple{Ptr{}, in.osErr(op, name, "ErrExist", "file exists")}
		}
		if n.dir && flag&(oWRONLY|oRDWR) != 0 {
			return Tuple{Ptr{}, in.osErr(op, name, "ErrInvalid", "is a directory")}
		}
		if flag&oTRUNC != 0 {
			n.data = nil
		}
	}
	wr := flag&(oWRONLY|oRDWR) != 0
	rd := flag&oWRONLY == 0
	return Tuple{in.osNewHandle(fn, n, name, rd, wr, flag&oAPPEND != 0), Iface{}}
}

// globMatch: shell pattern (only literal bytes and '*') against a name, as a term.
func globMatch(pat string, s []*term.Term) *term.Term {
	type key struct{ i, j int }
	memo := map[key]*term.Term{}
	var m func(i, j int) *term.Term
	m = func(i, j int) *term.Term {
		k := key{i, j}
		if r, ok := memo[k]; ok {
			return r
		}
		var r *term.Term
		switch {
		case i == len(pat):
			r = term.BoolC(j == len(s))
		case pat[i] == '*':
			// '*' matches any sequence of non-separator bytes
			alts := []*term.Term{m(i+1, j)}
			if j < len(s) {
				alts = append(alts, term.And(term.Not(term.Eq(s[j], term.BVC(8, '/'))), m(i, j+1)))
			}
			r = term.Or(alts...)
		case j == len(s):
			r = term.False
		default:
			r = term.And(term.Eq(s[j], term.BVC(8, uint64(pat[i]))), m(i+1, j+1))
		}
		memo[k] = r
		return r
	}
	return m(0, 0)
}

var opaqueMethods = map[string]func(in *Interp, args []Value) Value{}

func init() {
	errOrNil := func(e Iface) Value { return e }

	stat := func(in *Interp, fn *ssa.Function, args []Value) Value {
		p := args[0].(Str)
		n := in.fsLookup(p)
		if n == nil {
			return Tuple{Iface{}, in.osNotExist("stat", p)}
		}
		return Tuple{in.osStatIface(n), Iface{}}
	}
	reg("os.Stat", stat)
	reg("os.Lstat", stat)
	opaqueMethods["opaque:os.fileStat.Size"] = func(in *Interp, args []Value) Value {
		return term.BVC(64, uint64(in.osStatOf(args[0]).size))
	}
	opaqueMethods["opaque:os.fileStat.IsDir"] = func(in *Interp, args []Value) Value {
		return term.BoolC(in.osStatOf(args[0]).dir)
	}
	opaqueMethods["opaque:os.fileStat.Name"] = func(in *Interp, args []Value) Value {
		s := in.osStatOf(args[0]).name
		for i := len(s.B) - 1; i >= 0; i-- {
			if s.B[i].IsConst() && s.B[i].U == '/' {
				return Str{s.B[i+1:]}
			}
		}
		return s
	}
	opaqueMethods["opaque:os.fileStat.Mode"] = func(in *Interp, args []Value) Value {
		if in.osStatOf(args[0]).dir {
			return term.BVC(32, 1<<31|0o755)
		}
		return term.BVC(32, 0o600)
	}

	mkdirAll := func(in *Interp, p Str) Iface {
		fs := in.osfs()
		// every prefix ending before a concrete '/' and the path itself
		var cuts []int
		for i := 1; i < len(p.B); i++ {
			if p.B[i].IsConst() && p.B[i].U == '/' {
				cuts = append(cuts, i)
			}
		}
		cuts = append(cuts, len(p.B))
		for _, c := range cuts {
			pre := Str{p.B[:c:c]}
			if len(pre.B) == 0 {
				continue
			}
			n := in.fsLookup(pre)
			if n == nil {
				fs.nodes = append(fs.nodes, &fsNode{path: pre, dir: true, live: true})
			} else if !n.dir {
				return in.osErr("mkdir", pre, "ErrInvalid", "not a directory")
			}
		}
		return Iface{}
	}
	reg("os.MkdirAll", func(in *Interp, fn *ssa.Function, args []Value) Value {
		return errOrNil(mkdirAll(in, args[0].(Str)))
	})
	reg("os.Mkdir", func(in *Interp, fn *ssa.Function, args []Value) Value {
		p := args[0].(Str)
		if in.fsLookup(p) != nil {
			return in.osErr("mkdir", p, "ErrExist", "file exists")
		}
		if !in.fsParentOK(p) {
			return in.osNotExist("mkdir", p)
		}
		fs := in.osfs()
		fs.nodes = append(fs.nodes, &fsNode{path: p, dir: true, live: true})
		return Iface{}
	})
	// os.MkdirTemp(dir, pattern): a fresh concrete directory (natively a real one)
	reg("os.MkdirTemp", func(in *Interp, fn *ssa.Function, args []Value) Value {
		fs := in.osfs()
		fs.tmpN++
		dir, _ := args[0].(Str).Concrete()
		if dir == "" {
			dir = "/tmp"
		}
		pat, ok := args[1].(Str).Concrete()
		if !ok {
			pat = "x"
		}
		name := ""
		for _, c := range pat {
			if c != '*' {
				name += string(c)
			}
		}
		p := StrOf(fmt.Sprintf("%s/%s%d", dir, name, 100+fs.tmpN))
		mkdirAll(in, p)
		return Tuple{p, Iface{}}
	})
	reg("os.TempDir", func(in *Interp, fn *ssa.Function, args []Value) Value { return StrOf("/tmp") })

	reg("os.Create", func(in *Interp, fn *ssa.Function, args []Value) Value {
		return in.osOpen(fn, args[0].(Str), 0x2|0x40|0x200, "open")
	})
	reg("os.Open", func(in *Interp, fn *ssa.Function, args []Value) Value {
		return in.osOpen(fn, args[0].(Str), 0, "open")
	})
	reg("os.OpenFile", func(in *Interp, fn *ssa.Function, args []Value) Value {
		return in.osOpen(fn, args[0].(Str), concreteInt(in, args[1], "os.OpenFile flag"), "open")
	})
	reg("os.Rename", func(in *Interp, fn *ssa.Function, args []Value) Value {
		from, to := args[0].(Str), args[1].(Str)
		n := in.fsLookup(from)
		if n == nil {
			return in.osNotExist("rename", from)
		}
		if n.dir {
			panic(in.inconclusive("os.Rename of a directory is not modelled"))
		}
		if !in.fsParentOK(to) {
			return in.osNotExist("rename", to)
		}
		if t := in.fsLookup(to); t != nil && t != n {
			if t.dir {
				return in.osErr("rename", to, "ErrExist", "file exists")
			}
			t.live = false // replaced; open handles keep the old inode
		}
		n.path = to
		return Iface{}
	})
	reg("os.Remove", func(in *Interp, fn *ssa.Function, args []Value) Value {
		p := args[0].(Str)
		n := in.fsLookup(p)
		if n == nil {
			return in.osNotExist("remove", p)
		}
		if n.dir {
			for _, c := range in.osfs().nodes {
				if c.live && c != n {
					if par, ok := fsParent(c.path); ok && strEq(par, n.path).IsTrue() {
						return in.osErr("remove", p, "ErrExist", "directory not empty")
					}
				}
			}
		}
		n.live = false
		return Iface{}
	})
	reg("os.RemoveAll", func(in *Interp, fn *ssa.Function, args []Value) Value {
		p, ok := args[0].(Str).Concrete()
		if !ok {
			panic(in.inconclusive("os.RemoveAll of a symbolic path"))
		}
		for _, c := range in.osfs().nodes {
			if !c.live {
				continue
			}
			under := len(c.path.B) > len(p) && c.path.B[len(p)].IsConst() && c.path.B[len(p)].U == '/' && strEq(Str{c.path.B[:len(p)]}, StrOf(p)).IsTrue()
			if under || strEq(c.path, StrOf(p)).IsTrue() {
				c.live = false
			}
		}
		return Iface{}
	})
	reg("os.ReadFile", func(in *Interp, fn *ssa.Function, args []Value) Value {
		p := args[0].(Str)
		n := in.fsLookup(p)
		if n == nil {
			return Tuple{Slice{}, in.osNotExist("open", p)}
		}
		if n.dir {
			return Tuple{Slice{}, in.osErr("read", p, "ErrInvalid", "is a directory")}
		}
		s := byteSlice(in, n.data)
		if s.Cells == nil {
			s.Cells = []*Cell{}
		}
		return Tuple{s, Iface{}}
	})
	reg("os.WriteFile", func(in *Interp, fn *ssa.Function, args []Value) Value {
		p := args[0].(Str)
		n := in.fsLookup(p)
		if n == nil {
			if !in.fsParentOK(p) {
				return in.osNotExist("open", p)
			}
			n = &fsNode{path: p, live: true}
			fs := in.osfs()
			fs.nodes = append(fs.nodes, n)
		} else if n.dir {
			return in.osErr("open", p, "ErrInvalid", "is a directory")
		}
		n.data = append([]*term.Term{}, sliceTerms(args[1])...)
		return Iface{}
	})
	isErr := func(sentinel string) apiFn {
		return func(in *Interp, fn *ssa.Function, args []Value) Value {
			e := args[0].(Iface)
			if e.T == nil {
				return term.False
			}
			s := in.foreignSentinel("io/fs", sentinel)
			if s.T == nil {
				panic(in.inconclusive("io/fs.%s not loaded", sentinel))
			}
			return term.BoolC(in.errorsIs(e, s, 0))
		}
	}
	reg("os.IsNotExist", isErr("ErrNotExist"))
	reg("os.IsExist", isErr("ErrExist"))

	// ---- *os.File ----
	invalid := func(in *Interp) Iface {
		if s := in.foreignSentinel("io/fs", "ErrInvalid"); s.T != nil {
			return s
		}
		return in.newError(StrOf("invalid argument"), Iface{}).(Iface)
	}
	closedErr := func(in *Interp, op string, h *osHandle) Iface {
		return in.osErr(op, h.name, "ErrClosed", "file already closed")
	}
	write := func(in *Interp, fn *ssa.Function, args []Value) Value {
		h := in.osHandleOf(args[0])
		if h == nil {
			return Tuple{intC(0), invalid(in)}
		}
		if h.closed {
			return Tuple{intC(0), closedErr(in, "write", h)}
		}
		if !h.wr {
			return Tuple{intC(0), in.osErr("write", h.name, "ErrPermission", "bad file descriptor")}
		}
		bs := sliceTerms(args[1])
		n := h.node
		if h.app {
			h.pos = len(n.data)
		}
		data := append([]*term.Term{}, n.data...)
		for len(data) < h.pos {
			data = append(data, term.BVC(8, 0))
		}
		for i, b := range bs {
			if h.pos+i < len(data) {
				data[h.pos+i] = b
			} else {
				data = append(data, b)
			}
		}
		n.data = data
		h.pos += len(bs)
		return Tuple{intC(len(bs)), Iface{}}
	}
	reg("(*os.File).Write", write)
	reg("(*os.File).WriteString", write)
	reg("(*os.File).Close", func(in *Interp, fn *ssa.Function, args []Value) Value {
		h := in.osHandleOf(args[0])
		if h == nil {
			return invalid(in)
		}
		if h.closed {
			return closedErr(in, "close", h)
		}
		h.closed = true
		return Iface{}
	})
	reg("(*os.File).Sync", func(in *Interp, fn *ssa.Function, args []Value) Value {
		h := in.osHandleOf(args[0])
		if h == nil {
			return invalid(in)
		}
		if h.closed {
			return closedErr(in, "sync", h)
		}
		return Iface{}
	})
	reg("(*os.File).Name", func(in *Interp, fn *ssa.Function, args []Value) Value {
		h := in.osHandleOf(args[0])
		if h == nil {
			panic(in.runtimePanic("invalid memory address or nil pointer dereference"))
		}
		return h.name
	})
	reg("(*os.File).Fd", func(in *Interp, fn *ssa.Function, args []Value) Value {
		h := in.osHandleOf(args[0])
		if h == nil || h.closed {
			return term.BVC(64, ^uint64(0))
		}
		return term.BVC(64, uint64(h.fd))
	})
	reg("(*os.File).Stat", func(in *Interp, fn *ssa.Function, args []Value) Value {
		h := in.osHandleOf(args[0])
		if h == nil {
			return Tuple{Iface{}, invalid(in)}
		}
		if h.closed {
			return Tuple{Iface{}, closedErr(in, "stat", h)}
		}
		return Tuple{in.osStatIface(h.node), Iface{}}
	})
	reg("syscall.CloseOnExec", func(in *Interp, fn *ssa.Function, args []Value) Value { return nil })

	// ---- path/filepath.Glob over the model file system ----
	// Patterns are concrete and use only literal bytes and '*'. Results are in
	// lexical order, as the real Glob returns them within one directory.
	reg("path/filepath.Glob", func(in *Interp, fn *ssa.Function, args []Value) Value {
		pat, ok := args[0].(Str).Concrete()
		if !ok {
			panic(in.inconclusive("filepath.Glob with a symbolic pattern"))
		}
		for i := 0; i < len(pat); i++ {
			switch pat[i] {
			case '?', '[', '\\':
				panic(in.inconclusive("filepath.Glob pattern %q: only literal bytes and '*' are modelled", pat))
			}
		}
		var hits []Str
		for _, n := range in.osfs().nodes {
			if !n.live {
				continue
			}
			var c *term.Term
			if name, ok := n.path.Concrete(); ok {
				m, _ := filepath.Match(pat, name)
				c = term.BoolC(m)
			} else {
				c = globMatch(pat, n.path.B)
			}
			if c.IsTrue() || (!c.IsFalse() && in.Eng.Branch(c)) {
				hits = append(hits, n.path)
			}
		}
		allConcrete := true
		for _, h := range hits {
			if _, ok := h.Concrete(); !ok {
				allConcrete = false
			}
		}
		if allConcrete {
			sort.Slice(hits, func(i, j int) bool {
				a, _ := hits[i].Concrete()
				b, _ := hits[j].Concrete()
				return a < b
			})
		} else {
			for i := 1; i < len(hits); i++ { // insertion sort, forking on symbolic comparisons
				for j := i; j > 0; j-- {
					lt := strLess(hits[j], hits[j-1])
					if lt.IsFalse() || (!lt.IsTrue() && !in.Eng.Branch(lt)) {
						break
					}
					hits[j], hits[j-1] = hits[j-1], hits[j]
				}
			}
		}
		if len(hits) == 0 {
			return Tuple{Slice{}, Iface{}}
		}
		cells := make([]*Cell, len(hits))
		for i, h := range hits {
			cells[i] = &Cell{T: types.Typ[types.String], V: h, ID: in.newID()}
		}
		return Tuple{Slice{cells}, Iface{}}
	})
}
