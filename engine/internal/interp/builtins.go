package interp

import (
	"go/types"

	"golang.org/x/tools/go/ssa"

	"verif/engine/internal/term"
)

func intC(n int) *term.Term { return term.BVC(64, uint64(int64(n))) }

func (in *Interp) callBuiltin(b *ssa.Builtin, args []Value, site ssa.Instruction) Value {
	switch b.Name() {
	case "len":
		switch x := args[0].(type) {
		case Str:
			return intC(len(x.B))
		case Slice:
			return intC(len(x.Cells))
		case MapV:
			return intC(in.mapLen(x.M))
		case ChanV:
			if x.C == nil {
				return intC(0)
			}
			return intC(len(x.C.Buf))
		case ArrayV:
			return intC(len(x.E))
		case Ptr:
			if x.C == nil {
				// len of nil *array is the static length; use the type
				panic(in.bug("len(nil *array)"))
			}
			return intC(len(x.C.F))
		}
	case "cap":
		switch x := args[0].(type) {
		case Slice:
			return intC(cap(x.Cells))
		case ChanV:
			if x.C == nil {
				return intC(0)
			}
			return intC(x.C.Cap)
		case ArrayV:
			return intC(len(x.E))
		case Ptr:
			return intC(len(x.C.F))
		}
	case "append":
		s := args[0].(Slice)
		var add []Value
		var et types.Type
		if site != nil {
			if c, ok := site.(*ssa.Call); ok {
				et = c.Type().Underlying().(*types.Slice).Elem()
			}
		}
		switch y := args[1].(type) {
		case Slice:
			for _, c := range y.Cells {
				add = append(add, in.load(c))
			}
		case Str:
			for _, bt := range y.B {
				add = append(add, bt)
			}
		default:
			panic(in.bug("append arg %T", args[1]))
		}
		if len(add) == 0 {
			return s
		}
		if et == nil {
			panic(in.bug("append: unknown element type"))
		}
		n := len(s.Cells)
		if n+len(add) <= cap(s.Cells) {
			ns := s.Cells[:n+len(add)]
			for i, v := range add {
				in.store(ns[n+i], v)
			}
			return Slice{ns}
		}
		nc := 2 * cap(s.Cells)
		if nc < n+len(add) {
			nc = n + len(add)
		}
		cells := make([]*Cell, n+len(add), nc)
		for i := 0; i < n; i++ {
			c := in.newCell(et)
			in.store(c, in.load(s.Cells[i]))
			cells[i] = c
		}
		for i, v := range add {
			c := in.newCell(et)
			in.store(c, v)
			cells[n+i] = c
		}
		full := cells[:nc]
		for i := n + len(add); i < nc; i++ {
			full[i] = in.newCell(et)
		}
		return Slice{cells}
	case "copy":
		dst := args[0].(Slice)
		var src []Value
		switch y := args[1].(type) {
		case Slice:
			for _, c := range y.Cells {
				src = append(src, in.load(c))
			}
		case Str:
			for _, bt := range y.B {
				src = append(src, bt)
			}
		}
		n := len(dst.Cells)
		if len(src) < n {
			n = len(src)
		}
		for i := 0; i < n; i++ {
			in.store(dst.Cells[i], src[i])
		}
		return intC(n)
	case "delete":
		m := args[0].(MapV)
		if m.M != nil {
			in.mapDelete(m.M, args[1])
		}
		return nil
	case "close":
		in.chanClose(args[0].(ChanV).C)
		return nil
	case "recover":
		g := in.cur
		if len(g.deferFrames) == 0 {
			return Iface{}
		}
		fr := g.deferFrames[len(g.deferFrames)-1]
		if fr.panicking == nil {
			return Iface{}
		}
		// recover stops a panic only when called directly by the deferred
		// function (Go spec): in a helper called by it, it returns nil.
		if g.fr == nil || g.fr.caller != fr {
			return Iface{}
		}
		gp := fr.panicking
		fr.panicking = nil
		fr.recovered = true
		if iv, ok := gp.V.(Iface); ok {
			return iv
		}
		return Iface{T: types.Typ[types.String], V: gp.V}
	case "print", "println":
		return nil
	case "min", "max":
		acc := args[0]
		for _, a := range args[1:] {
			switch x := acc.(type) {
			case *term.Term:
				y := a.(*term.Term)
				lt := func(p, q *term.Term) *term.Term {
					if p.Sort.K == term.KFP {
						return term.FLt(p, q)
					}
					if site != nil && isSigned(site.(*ssa.Call).Type()) {
						return term.SLt(p, q)
					}
					return term.ULt(p, q)
				}
				if b.Name() == "max" {
					acc = term.Ite(lt(x, y), y, x)
				} else {
					acc = term.Ite(lt(y, x), y, x)
				}
			case Str:
				y := a.(Str)
				c := strLess(y, x)
				if b.Name() == "max" {
					c = strLess(x, y)
				}
				if in.Eng.Branch(c) {
					acc = y
				}
			}
		}
		return acc
	case "clear":
		switch x := args[0].(type) {
		case MapV:
			if x.M != nil {
				x.M.Entries = nil
			}
		case Slice:
			for _, c := range x.Cells {
				in.store(c, in.zero(c.T))
			}
		}
		return nil
	case "ssa:wrapnilchk":
		if p, ok := args[0].(Ptr); ok && p.C == nil {
			panic(in.runtimePanic("value method called using nil pointer"))
		}
		return args[0]
	}
	panic(in.bug("builtin %s on %T", b.Name(), args))
}
