// Package term implements hash-consed SMT terms with constant folding and an
// SMT-LIB2 printer. Sorts: Bool, (_ BitVec w), Float64, Float32.
package term

import (
	"fmt"
	"math"
	"math/bits"
	"sort"
	"strings"
	"sync"
)

type Kind uint8

const (
	KBool Kind = iota
	KBV
	KFP
)

type Sort struct {
	K Kind
	W int // BV width, or 64/32 for FP
}

var Bool = Sort{KBool, 0}

func BV(w int) Sort { return Sort{KBV, w} }

var F64 = Sort{KFP, 64}
var F32 = Sort{KFP, 32}

func (s Sort) SMT() string {
	switch s.K {
	case KBool:
		return "Bool"
	case KBV:
		return fmt.Sprintf("(_ BitVec %d)", s.W)
	case KFP:
		if s.W == 64 {
			return "(_ FloatingPoint 11 53)"
		}
		return "(_ FloatingPoint 8 24)"
	}
	return "?"
}

type Op uint8

const (
	OConst Op = iota
	OVar
	ONot
	OAnd
	OOr
	OIte
	OEq
	OAdd
	OSub
	OMul
	OUDiv
	OSDiv
	OURem
	OSRem
	OBAnd
	OBOr
	OBXor
	OShl
	OLShr
	OAShr
	ONeg
	OBNot
	OULt
	OULe
	OSLt
	OSLe
	OExtract // U = hi<<8|lo
	OZExt    // to Sort.W
	OSExt
	OConcat
	OFAdd
	OFSub
	OFMul
	OFDiv
	OFNeg
	OFAbs
	OFLt
	OFLe
	OFEq // IEEE equality (NaN != NaN)
	OFIsNaN
	OFIsInf
	OFToSBV // RTZ
	OFToUBV // RTZ
	OSBVToF
	OUBVToF
	OFToF
	OFSqrt
	OFRound // U = mode: 0 RNE 1 RTP(ceil) 2 RTN(floor) 3 RTZ(trunc) 4 RNA(round half away)
	OFBits  // float -> bv reinterpret (modelled via fresh var + constraint elsewhere; printer uses fp.to_ieee_bv where available)
	OBitsF  // bv -> float reinterpret (to_fp)
	OUF     // uninterpreted function application: Name, Args
)

type Term struct {
	Op   Op
	Sort Sort
	Args []*Term
	U    uint64  // BV const value (masked) / bool const (0/1) / extract bounds / round mode
	F    float64 // FP const
	Name string  // var / UF name
	ID   int
}

var (
	mu    sync.Mutex
	table = map[string]*Term{}
	next  int
)

func key(op Op, s Sort, args []*Term, u uint64, f float64, name string) string {
	var b strings.Builder
	fmt.Fprintf(&b, "%d|%d.%d|%x|%x|%s", op, s.K, s.W, u, math.Float64bits(f), name)
	for _, a := range args {
		fmt.Fprintf(&b, "|%d", a.ID)
	}
	return b.String()
}

func mk(op Op, s Sort, args []*Term, u uint64, f float64, name string) *Term {
	k := key(op, s, args, u, f, name)
	mu.Lock()
	defer mu.Unlock()
	if t, ok := table[k]; ok {
		return t
	}
	next++
	t := &Term{Op: op, Sort: s, Args: args, U: u, F: f, Name: name, ID: next}
	table[k] = t
	return t
}

func NumTerms() int { mu.Lock(); defer mu.Unlock(); return next }

func mask(w int) uint64 {
	if w >= 64 {
		return ^uint64(0)
	}
	return (uint64(1) << uint(w)) - 1
}

// ---- constructors ----

var True = mk(OConst, Bool, nil, 1, 0, "")
var False = mk(OConst, Bool, nil, 0, 0, "")

func BoolC(b bool) *Term {
	if b {
		return True
	}
	return False
}

func BVC(w int, v uint64) *Term { return mk(OConst, BV(w), nil, v&mask(w), 0, "") }

func FC(w int, f float64) *Term {
	if w == 32 {
		f = float64(float32(f))
	}
	return mk(OConst, Sort{KFP, w}, nil, 0, f, "")
}

func Var(name string, s Sort) *Term { return mk(OVar, s, nil, 0, 0, name) }

func (t *Term) IsConst() bool { return t.Op == OConst }
func (t *Term) IsTrue() bool  { return t == True }
func (t *Term) IsFalse() bool { return t == False }

// SignedVal returns the constant as sign-extended int64.
func (t *Term) SignedVal() int64 {
	w := t.Sort.W
	v := t.U
	if w < 64 && v&(1<<uint(w-1)) != 0 {
		v |= ^mask(w)
	}
	return int64(v)
}

func Not(a *Term) *Term {
	if a.IsConst() {
		return BoolC(a.U == 0)
	}
	if a.Op == ONot {
		return a.Args[0]
	}
	return mk(ONot, Bool, []*Term{a}, 0, 0, "")
}

func And(as ...*Term) *Term {
	var out []*Term
	seen := map[int]bool{}
	for _, a := range as {
		if a.IsFalse() {
			return False
		}
		if a.IsTrue() {
			continue
		}
		if a.Op == OAnd {
			for _, x := range a.Args {
				if !seen[x.ID] {
					seen[x.ID] = true
					out = append(out, x)
				}
			}
			continue
		}
		if !seen[a.ID] {
			seen[a.ID] = true
			out = append(out, a)
		}
	}
	for _, a := range out {
		if a.Op == ONot && seen[a.Args[0].ID] {
			return False
		}
	}
	if len(out) == 0 {
		return True
	}
	if len(out) == 1 {
		return out[0]
	}
	return mk(OAnd, Bool, out, 0, 0, "")
}

func Or(as ...*Term) *Term {
	var out []*Term
	seen := map[int]bool{}
	for _, a := range as {
		if a.IsTrue() {
			return True
		}
		if a.IsFalse() {
			continue
		}
		if a.Op == OOr {
			for _, x := range a.Args {
				if !seen[x.ID] {
					seen[x.ID] = true
					out = append(out, x)
				}
			}
			continue
		}
		if !seen[a.ID] {
			seen[a.ID] = true
			out = append(out, a)
		}
	}
	for _, a := range out {
		if a.Op == ONot && seen[a.Args[0].ID] {
			return True
		}
	}
	if len(out) == 0 {
		return False
	}
	if len(out) == 1 {
		return out[0]
	}
	return mk(OOr, Bool, out, 0, 0, "")
}

func Implies(a, b *Term) *Term { return Or(Not(a), b) }

func Ite(c, a, b *Term) *Term {
	if c.IsTrue() {
		return a
	}
	if c.IsFalse() {
		return b
	}
	if a == b {
		return a
	}
	if a.Sort.K == KBool {
		if a.IsTrue() && b.IsFalse() {
			return c
		}
		if a.IsFalse() && b.IsTrue() {
			return Not(c)
		}
	}
	return mk(OIte, a.Sort, []*Term{c, a, b}, 0, 0, "")
}

func Eq(a, b *Term) *Term {
	if a.Sort != b.Sort {
		panic(fmt.Sprintf("term.Eq sort mismatch %v vs %v", a.Sort, b.Sort))
	}
	if a == b {
		if a.Sort.K == KFP {
			// structural equality on FP (SMT "="), NaN = NaN is true there
			return True
		}
		return True
	}
	if a.IsConst() && b.IsConst() {
		switch a.Sort.K {
		case KFP:
			return BoolC(math.Float64bits(a.F) == math.Float64bits(b.F) || (a.F != a.F && b.F != b.F))
		default:
			return BoolC(a.U == b.U)
		}
	}
	if a.Sort.K == KBool {
		if a.IsConst() {
			a, b = b, a
		}
		if b.IsTrue() {
			return a
		}
		if b.IsFalse() {
			return Not(a)
		}
	}
	if a.ID > b.ID {
		a, b = b, a
	}
	return mk(OEq, Bool, []*Term{a, b}, 0, 0, "")
}

func bin(op Op, a, b *Term) *Term {
	if a.Sort != b.Sort {
		panic(fmt.Sprintf("term bin op %d sort mismatch %v vs %v", op, a.Sort, b.Sort))
	}
	return mk(op, a.Sort, []*Term{a, b}, 0, 0, "")
}

func isZero(t *Term) bool { return t.IsConst() && t.U == 0 }
func isOnes(t *Term) bool { return t.IsConst() && t.U == mask(t.Sort.W) }

func Add(a, b *Term) *Term {
	w := a.Sort.W
	if a.IsConst() && b.IsConst() {
		return BVC(w, a.U+b.U)
	}
	if isZero(a) {
		return b
	}
	if isZero(b) {
		return a
	}
	if a.IsConst() {
		a, b = b, a
	}
	// (x + c1) + c2
	if b.IsConst() && a.Op == OAdd && a.Args[1].IsConst() {
		return Add(a.Args[0], BVC(w, a.Args[1].U+b.U))
	}
	return bin(OAdd, a, b)
}

func Sub(a, b *Term) *Term {
	w := a.Sort.W
	if a.IsConst() && b.IsConst() {
		return BVC(w, a.U-b.U)
	}
	if isZero(b) {
		return a
	}
	if a == b {
		return BVC(w, 0)
	}
	if b.IsConst() {
		return Add(a, BVC(w, -b.U))
	}
	return bin(OSub, a, b)
}

func Mul(a, b *Term) *Term {
	w := a.Sort.W
	if a.IsConst() && b.IsConst() {
		return BVC(w, a.U*b.U)
	}
	if isZero(a) || isZero(b) {
		return BVC(w, 0)
	}
	if a.IsConst() && a.U == 1 {
		return b
	}
	if b.IsConst() && b.U == 1 {
		return a
	}
	if a.IsConst() {
		a, b = b, a
	}
	return bin(OMul, a, b)
}

// Division ops: caller guarantees divisor != 0 on the path (engine forks a panic path).
func UDiv(a, b *Term) *Term {
	if a.IsConst() && b.IsConst() && b.U != 0 {
		return BVC(a.Sort.W, a.U/b.U)
	}
	if b.IsConst() && b.U == 1 {
		return a
	}
	return bin(OUDiv, a, b)
}

func URem(a, b *Term) *Term {
	if a.IsConst() && b.IsConst() && b.U != 0 {
		return BVC(a.Sort.W, a.U%b.U)
	}
	return bin(OURem, a, b)
}

func SDiv(a, b *Term) *Term {
	if a.IsConst() && b.IsConst() && b.U != 0 {
		x, y := a.SignedVal(), b.SignedVal()
		if y == -1 {
			return BVC(a.Sort.W, uint64(-x))
		}
		return BVC(a.Sort.W, uint64(x/y))
	}
	if b.IsConst() && b.U == 1 {
		return a
	}
	return bin(OSDiv, a, b)
}

func SRem(a, b *Term) *Term {
	if a.IsConst() && b.IsConst() && b.U != 0 {
		x, y := a.SignedVal(), b.SignedVal()
		if y == -1 {
			return BVC(a.Sort.W, 0)
		}
		return BVC(a.Sort.W, uint64(x%y))
	}
	return bin(OSRem, a, b)
}

func BAnd(a, b *Term) *Term {
	if a.IsConst() && b.IsConst() {
		return BVC(a.Sort.W, a.U&b.U)
	}
	if isZero(a) || isZero(b) {
		return BVC(a.Sort.W, 0)
	}
	if isOnes(a) {
		return b
	}
	if isOnes(b) {
		return a
	}
	if a == b {
		return a
	}
	return bin(OBAnd, a, b)
}

func BOr(a, b *Term) *Term {
	if a.IsConst() && b.IsConst() {
		return BVC(a.Sort.W, a.U|b.U)
	}
	if isZero(a) {
		return b
	}
	if isZero(b) {
		return a
	}
	if a == b {
		return a
	}
	return bin(OBOr, a, b)
}

func BXor(a, b *Term) *Term {
	if a.IsConst() && b.IsConst() {
		return BVC(a.Sort.W, a.U^b.U)
	}
	if isZero(a) {
		return b
	}
	if isZero(b) {
		return a
	}
	if a == b {
		return BVC(a.Sort.W, 0)
	}
	return bin(OBXor, a, b)
}

func BNot(a *Term) *Term {
	if a.IsConst() {
		return BVC(a.Sort.W, ^a.U)
	}
	return mk(OBNot, a.Sort, []*Term{a}, 0, 0, "")
}

func Neg(a *Term) *Term {
	if a.IsConst() {
		return BVC(a.Sort.W, -a.U)
	}
	return mk(ONeg, a.Sort, []*Term{a}, 0, 0, "")
}

// Shifts: b has the same width as a (caller adapts); SMT semantics: shift >= w gives 0 / sign fill.
func Shl(a, b *Term) *Term {
	w := a.Sort.W
	if a.IsConst() && b.IsConst() {
		if b.U >= uint64(w) {
			return BVC(w, 0)
		}
		return BVC(w, a.U<<b.U)
	}
	if isZero(b) {
		return a
	}
	return bin(OShl, a, b)
}

func LShr(a, b *Term) *Term {
	w := a.Sort.W
	if a.IsConst() && b.IsConst() {
		if b.U >= uint64(w) {
			return BVC(w, 0)
		}
		return BVC(w, a.U>>b.U)
	}
	if isZero(b) {
		return a
	}
	return bin(OLShr, a, b)
}

func AShr(a, b *Term) *Term {
	w := a.Sort.W
	if a.IsConst() && b.IsConst() {
		s := b.U
		if s >= uint64(w) {
			s = uint64(w - 1)
		}
		return BVC(w, uint64(a.SignedVal()>>s))
	}
	if isZero(b) {
		return a
	}
	return bin(OAShr, a, b)
}

func cmp(op Op, a, b *Term) *Term {
	if a.Sort != b.Sort {
		panic(fmt.Sprintf("term cmp sort mismatch %v vs %v", a.Sort, b.Sort))
	}
	return mk(op, Bool, []*Term{a, b}, 0, 0, "")
}

func ULt(a, b *Term) *Term {
	if a.IsConst() && b.IsConst() {
		return BoolC(a.U < b.U)
	}
	if a == b {
		return False
	}
	if isZero(b) {
		return False
	}
	return cmp(OULt, a, b)
}
func ULe(a, b *Term) *Term {
	if a.IsConst() && b.IsConst() {
		return BoolC(a.U <= b.U)
	}
	if a == b {
		return True
	}
	if isZero(a) {
		return True
	}
	return cmp(OULe, a, b)
}
func SLt(a, b *Term) *Term {
	if a.IsConst() && b.IsConst() {
		return BoolC(a.SignedVal() < b.SignedVal())
	}
	if a == b {
		return False
	}
	return cmp(OSLt, a, b)
}
func SLe(a, b *Term) *Term {
	if a.IsConst() && b.IsConst() {
		return BoolC(a.SignedVal() <= b.SignedVal())
	}
	if a == b {
		return True
	}
	return cmp(OSLe, a, b)
}

func Extract(a *Term, hi, lo int) *Term {
	w := hi - lo + 1
	if lo == 0 && w == a.Sort.W {
		return a
	}
	if a.IsConst() {
		return BVC(w, a.U>>uint(lo))
	}
	if (a.Op == OZExt || a.Op == OSExt) && hi < a.Args[0].Sort.W {
		return Extract(a.Args[0], hi, lo)
	}
	return mk(OExtract, BV(w), []*Term{a}, uint64(hi)<<8|uint64(lo), 0, "")
}

func ZExt(a *Term, w int) *Term {
	if w == a.Sort.W {
		return a
	}
	if w < a.Sort.W {
		return Extract(a, w-1, 0)
	}
	if a.IsConst() {
		return BVC(w, a.U)
	}
	return mk(OZExt, BV(w), []*Term{a}, 0, 0, "")
}

func SExt(a *Term, w int) *Term {
	if w == a.Sort.W {
		return a
	}
	if w < a.Sort.W {
		return Extract(a, w-1, 0)
	}
	if a.IsConst() {
		return BVC(w, uint64(a.SignedVal()))
	}
	return mk(OSExt, BV(w), []*Term{a}, 0, 0, "")
}

// ---- floating point ----

func fsort(a *Term) Sort { return a.Sort }

func fbin(op Op, a, b *Term, f func(x, y float64) float64) *Term {
	if a.Sort != b.Sort {
		panic("term fbin sort mismatch")
	}
	if a.IsConst() && b.IsConst() {
		if a.Sort.W == 32 {
			return FC(32, float64(float32(f(a.F, b.F))))
		}
		return FC(64, f(a.F, b.F))
	}
	return mk(op, a.Sort, []*Term{a, b}, 0, 0, "")
}

func FAdd(a, b *Term) *Term { return fbin(OFAdd, a, b, func(x, y float64) float64 { return x + y }) }
func FSub(a, b *Term) *Term { return fbin(OFSub, a, b, func(x, y float64) float64 { return x - y }) }
func FMul(a, b *Term) *Term { return fbin(OFMul, a, b, func(x, y float64) float64 { return x * y }) }
func FDiv(a, b *Term) *Term { return fbin(OFDiv, a, b, func(x, y float64) float64 { return x / y }) }

func FNeg(a *Term) *Term {
	if a.IsConst() {
		return FC(a.Sort.W, -a.F)
	}
	return mk(OFNeg, a.Sort, []*Term{a}, 0, 0, "")
}
func FAbs(a *Term) *Term {
	if a.IsConst() {
		return FC(a.Sort.W, math.Abs(a.F))
	}
	return mk(OFAbs, a.Sort, []*Term{a}, 0, 0, "")
}
func FSqrt(a *Term) *Term {
	if a.IsConst() {
		return FC(a.Sort.W, math.Sqrt(a.F))
	}
	return mk(OFSqrt, a.Sort, []*Term{a}, 0, 0, "")
}
func FLt(a, b *Term) *Term {
	if a.IsConst() && b.IsConst() {
		return BoolC(a.F < b.F)
	}
	return cmp(OFLt, a, b)
}
func FLe(a, b *Term) *Term {
	if a.IsConst() && b.IsConst() {
		return BoolC(a.F <= b.F)
	}
	return cmp(OFLe, a, b)
}
func FEq(a, b *Term) *Term {
	if a.IsConst() && b.IsConst() {
		return BoolC(a.F == b.F)
	}
	return cmp(OFEq, a, b)
}
func FIsNaN(a *Term) *Term {
	if a.IsConst() {
		return BoolC(a.F != a.F)
	}
	return mk(OFIsNaN, Bool, []*Term{a}, 0, 0, "")
}
func FIsInf(a *Term) *Term {
	if a.IsConst() {
		return BoolC(math.IsInf(a.F, 0))
	}
	return mk(OFIsInf, Bool, []*Term{a}, 0, 0, "")
}

// FRound: mode 1 ceil, 2 floor, 3 trunc, 4 round-half-away, 0 RNE
func FRound(a *Term, mode int) *Term {
	if a.IsConst() {
		switch mode {
		case 1:
			return FC(a.Sort.W, math.Ceil(a.F))
		case 2:
			return FC(a.Sort.W, math.Floor(a.F))
		case 3:
			return FC(a.Sort.W, math.Trunc(a.F))
		case 4:
			return FC(a.Sort.W, math.Round(a.F))
		case 0:
			return FC(a.Sort.W, math.RoundToEven(a.F))
		}
	}
	return mk(OFRound, a.Sort, []*Term{a}, uint64(mode), 0, "")
}

// FToSBV converts float to signed BV w (RTZ). Out-of-range results are
// unspecified in SMT-LIB as in Go (implementation-defined); callers that care
// must constrain the range.
func FToSBV(a *Term, w int) *Term {
	if a.IsConst() && a.F == a.F && math.Abs(a.F) < 9.2e18 {
		return BVC(w, uint64(int64(a.F)))
	}
	return mk(OFToSBV, BV(w), []*Term{a}, 0, 0, "")
}
func FToUBV(a *Term, w int) *Term {
	if a.IsConst() && a.F == a.F && a.F >= 0 && a.F < 1.8e19 {
		return BVC(w, uint64(a.F))
	}
	return mk(OFToUBV, BV(w), []*Term{a}, 0, 0, "")
}
func SBVToF(a *Term, fw int) *Term {
	if a.IsConst() {
		return FC(fw, float64(a.SignedVal()))
	}
	return mk(OSBVToF, Sort{KFP, fw}, []*Term{a}, 0, 0, "")
}
func UBVToF(a *Term, fw int) *Term {
	if a.IsConst() {
		return FC(fw, float64(a.U))
	}
	return mk(OUBVToF, Sort{KFP, fw}, []*Term{a}, 0, 0, "")
}
func FToF(a *Term, fw int) *Term {
	if a.Sort.W == fw {
		return a
	}
	if a.IsConst() {
		return FC(fw, a.F)
	}
	return mk(OFToF, Sort{KFP, fw}, []*Term{a}, 0, 0, "")
}

// BitsF reinterprets a BV as float of the same width.
func BitsF(a *Term) *Term {
	if a.IsConst() {
		if a.Sort.W == 64 {
			return FC(64, math.Float64frombits(a.U))
		}
		return FC(32, float64(math.Float32frombits(uint32(a.U))))
	}
	return mk(OBitsF, Sort{KFP, a.Sort.W}, []*Term{a}, 0, 0, "")
}

func UF(name string, s Sort, args ...*Term) *Term {
	return mk(OUF, s, args, 0, 0, name)
}

// ---- utility ----

func Popcount(v uint64) int { return bits.OnesCount64(v) }

// Vars collects the variables and UFs occurring in ts.
func Vars(ts ...*Term) (vars []*Term, ufs map[string]*Term) {
	seen := map[int]bool{}
	ufs = map[string]*Term{}
	var walk func(t *Term)
	walk = func(t *Term) {
		if seen[t.ID] {
			return
		}
		seen[t.ID] = true
		if t.Op == OVar {
			vars = append(vars, t)
		}
		if t.Op == OUF {
			if _, ok := ufs[t.Name]; !ok {
				ufs[t.Name] = t
			}
		}
		for _, a := range t.Args {
			walk(a)
		}
	}
	for _, t := range ts {
		walk(t)
	}
	sort.Slice(vars, func(i, j int) bool { return vars[i].ID < vars[j].ID })
	return
}

func (t *Term) String() string {
	var b strings.Builder
	pr := &Printer{defined: map[int]bool{}, inline: true}
	pr.expr(&b, t)
	return b.String()
}

var fpCache = map[int]bool{}

// HasFP reports whether t contains a floating-point sorted subterm.
func HasFP(t *Term) bool {
	mu.Lock()
	v, ok := fpCache[t.ID]
	mu.Unlock()
	if ok {
		return v
	}
	r := t.Sort.K == KFP
	if !r {
		for _, a := range t.Args {
			if HasFP(a) {
				r = true
				break
			}
		}
	}
	mu.Lock()
	fpCache[t.ID] = r
	mu.Unlock()
	return r
}
