package term

import (
	"math"
)

// Val is a concrete value of a term under an assignment.
type Val struct {
	U uint64  // BV (masked) or bool (0/1)
	F float64 // FP
}

// Evaluator evaluates terms under an assignment of variables. Terms with
// uninterpreted functions (or unsupported ops) are not evaluable: ok=false.
type Evaluator struct {
	Vars  map[string]Val // by variable name
	cache map[int]Val
	bad   map[int]bool
}

func NewEvaluator(vars map[string]Val) *Evaluator {
	return &Evaluator{Vars: vars, cache: map[int]Val{}, bad: map[int]bool{}}
}

func sval(u uint64, w int) int64 {
	if w < 64 && u&(1<<uint(w-1)) != 0 {
		u |= ^mask(w)
	}
	return int64(u)
}

func b2u(b bool) uint64 {
	if b {
		return 1
	}
	return 0
}

func (e *Evaluator) Eval(t *Term) (Val, bool) {
	if v, ok := e.cache[t.ID]; ok {
		return v, true
	}
	if e.bad[t.ID] {
		return Val{}, false
	}
	v, ok := e.eval(t)
	if ok {
		e.cache[t.ID] = v
	} else {
		e.bad[t.ID] = true
	}
	return v, ok
}

func (e *Evaluator) eval(t *Term) (Val, bool) {
	switch t.Op {
	case OConst:
		return Val{U: t.U, F: t.F}, true
	case OVar:
		v, ok := e.Vars[t.Name]
		if !ok {
			// unconstrained variable: any value; use zero
			return Val{}, true
		}
		if t.Sort.K == KBV {
			v.U &= mask(t.Sort.W)
		}
		if t.Sort.K == KFP && t.Sort.W == 32 {
			v.F = float64(float32(v.F))
		}
		return v, true
	case OUF, OFRound, OFSqrt:
		if t.Op == OFSqrt {
			a, ok := e.Eval(t.Args[0])
			if !ok {
				return Val{}, false
			}
			return e.fres(t, math.Sqrt(a.F)), true
		}
		if t.Op == OFRound {
			a, ok := e.Eval(t.Args[0])
			if !ok {
				return Val{}, false
			}
			switch t.U {
			case 0:
				return e.fres(t, math.RoundToEven(a.F)), true
			case 1:
				return e.fres(t, math.Ceil(a.F)), true
			case 2:
				return e.fres(t, math.Floor(a.F)), true
			case 3:
				return e.fres(t, math.Trunc(a.F)), true
			case 4:
				return e.fres(t, math.Round(a.F)), true
			}
		}
		return Val{}, false
	}
	args := make([]Val, len(t.Args))
	for i, a := range t.Args {
		if t.Op == OIte && i > 0 {
			break
		}
		v, ok := e.Eval(a)
		if !ok {
			return Val{}, false
		}
		args[i] = v
	}
	w := t.Sort.W
	aw := 0
	if len(t.Args) > 0 {
		aw = t.Args[0].Sort.W
	}
	bv := func(u uint64) (Val, bool) { return Val{U: u & mask(w)}, true }
	bl := func(b bool) (Val, bool) { return Val{U: b2u(b)}, true }
	switch t.Op {
	case ONot:
		return bl(args[0].U == 0)
	case OAnd:
		for _, a := range args {
			if a.U == 0 {
				return bl(false)
			}
		}
		return bl(true)
	case OOr:
		for _, a := range args {
			if a.U != 0 {
				return bl(true)
			}
		}
		return bl(false)
	case OIte:
		if args[0].U != 0 {
			return e.Eval(t.Args[1])
		}
		return e.Eval(t.Args[2])
	case OEq:
		if t.Args[0].Sort.K == KFP {
			a, b := args[0].F, args[1].F
			return bl(math.Float64bits(a) == math.Float64bits(b) || (a != a && b != b))
		}
		return bl(args[0].U == args[1].U)
	case OAdd:
		return bv(args[0].U + args[1].U)
	case OSub:
		return bv(args[0].U - args[1].U)
	case OMul:
		return bv(args[0].U * args[1].U)
	case OUDiv:
		if args[1].U == 0 {
			return bv(mask(w))
		}
		return bv(args[0].U / args[1].U)
	case OURem:
		if args[1].U == 0 {
			return bv(args[0].U)
		}
		return bv(args[0].U % args[1].U)
	case OSDiv:
		x, y := sval(args[0].U, aw), sval(args[1].U, aw)
		if y == 0 {
			if x >= 0 {
				return bv(mask(w))
			}
			return bv(1)
		}
		if y == -1 {
			return bv(uint64(-x))
		}
		return bv(uint64(x / y))
	case OSRem:
		x, y := sval(args[0].U, aw), sval(args[1].U, aw)
		if y == 0 {
			return bv(uint64(x))
		}
		if y == -1 {
			return bv(0)
		}
		return bv(uint64(x % y))
	case OBAnd:
		return bv(args[0].U & args[1].U)
	case OBOr:
		return bv(args[0].U | args[1].U)
	case OBXor:
		return bv(args[0].U ^ args[1].U)
	case OBNot:
		return bv(^args[0].U)
	case ONeg:
		return bv(-args[0].U)
	case OShl:
		if args[1].U >= uint64(w) {
			return bv(0)
		}
		return bv(args[0].U << args[1].U)
	case OLShr:
		if args[1].U >= uint64(w) {
			return bv(0)
		}
		return bv(args[0].U >> args[1].U)
	case OAShr:
		s := args[1].U
		if s >= uint64(w) {
			s = uint64(w - 1)
		}
		return bv(uint64(sval(args[0].U, aw) >> s))
	case OULt:
		return bl(args[0].U < args[1].U)
	case OULe:
		return bl(args[0].U <= args[1].U)
	case OSLt:
		return bl(sval(args[0].U, aw) < sval(args[1].U, aw))
	case OSLe:
		return bl(sval(args[0].U, aw) <= sval(args[1].U, aw))
	case OExtract:
		lo := uint(t.U & 0xff)
		return bv(args[0].U >> lo)
	case OZExt:
		return bv(args[0].U)
	case OSExt:
		return bv(uint64(sval(args[0].U, aw)))
	case OConcat:
		return bv(args[0].U<<uint(t.Args[1].Sort.W) | args[1].U)
	case OFAdd:
		return e.fres(t, e.f(t, args[0].F)+e.f(t, args[1].F)), true
	case OFSub:
		return e.fres(t, args[0].F-args[1].F), true
	case OFMul:
		return e.fres(t, args[0].F*args[1].F), true
	case OFDiv:
		return e.fres(t, args[0].F/args[1].F), true
	case OFNeg:
		return e.fres(t, -args[0].F), true
	case OFAbs:
		return e.fres(t, math.Abs(args[0].F)), true
	case OFLt:
		return bl(args[0].F < args[1].F)
	case OFLe:
		return bl(args[0].F <= args[1].F)
	case OFEq:
		return bl(args[0].F == args[1].F)
	case OFIsNaN:
		return bl(args[0].F != args[0].F)
	case OFIsInf:
		return bl(math.IsInf(args[0].F, 0))
	case OFToSBV:
		f := args[0].F
		if f != f || math.Abs(f) >= 9.3e18 {
			return Val{}, false
		}
		i := int64(f)
		if w < 64 && (i >= 1<<uint(w-1) || i < -(1<<uint(w-1))) {
			return Val{}, false
		}
		return bv(uint64(i))
	case OFToUBV:
		f := args[0].F
		if f != f || f <= -1 || f >= 1.85e19 {
			return Val{}, false
		}
		u := uint64(f)
		if w < 64 && u >= 1<<uint(w) {
			return Val{}, false
		}
		return bv(u)
	case OSBVToF:
		return e.fres(t, float64(sval(args[0].U, aw))), true
	case OUBVToF:
		return e.fres(t, float64(args[0].U)), true
	case OFToF:
		return e.fres(t, args[0].F), true
	case OBitsF:
		if w == 64 {
			return Val{F: math.Float64frombits(args[0].U)}, true
		}
		return Val{F: float64(math.Float32frombits(uint32(args[0].U)))}, true
	}
	return Val{}, false
}

func (e *Evaluator) f(t *Term, x float64) float64 { return x }

func (e *Evaluator) fres(t *Term, x float64) Val {
	if t.Sort.W == 32 {
		return Val{F: float64(float32(x))}
	}
	return Val{F: x}
}
