package term

import (
	"fmt"
	"math"
	"sort"
	"strings"
)

// Printer emits SMT-LIB2 text. Non-leaf terms are emitted once as
// (define-fun tN () Sort expr), children before parents (IDs are topological
// by construction), so output size is linear in DAG size.
type Printer struct {
	defined map[int]bool
	inline  bool // String(): fully inline
}

func NewPrinter() *Printer { return &Printer{defined: map[int]bool{}} }

func (p *Printer) Reset() { p.defined = map[int]bool{} }

func symName(prefix, n string) string {
	n = strings.Map(func(r rune) rune {
		if r == '|' || r == '\\' {
			return '_'
		}
		return r
	}, n)
	return "|" + prefix + n + "|"
}

func VarSym(t *Term) string { return symName("v_", t.Name) }

func bvConst(w int, v uint64) string {
	if w%4 == 0 {
		return fmt.Sprintf("#x%0*x", w/4, v)
	}
	return fmt.Sprintf("#b%0*b", w, v)
}

func fpConst(w int, f float64) string {
	if w == 64 {
		if f != f {
			return "(_ NaN 11 53)"
		}
		b := math.Float64bits(f)
		return fmt.Sprintf("(fp #b%b #b%011b #b%052b)", b>>63, (b>>52)&0x7ff, b&((1<<52)-1))
	}
	if f != f {
		return "(_ NaN 8 24)"
	}
	b := math.Float32bits(float32(f))
	return fmt.Sprintf("(fp #b%b #b%08b #b%023b)", b>>31, (b>>23)&0xff, b&((1<<23)-1))
}

func fpTo(w int) string {
	if w == 64 {
		return "(_ to_fp 11 53)"
	}
	return "(_ to_fp 8 24)"
}
func fpToU(w int) string {
	if w == 64 {
		return "(_ to_fp_unsigned 11 53)"
	}
	return "(_ to_fp_unsigned 8 24)"
}

var rmodes = []string{"RNE", "RTP", "RTN", "RTZ", "RNA"}

func (p *Printer) ref(t *Term) string {
	switch t.Op {
	case OConst:
		switch t.Sort.K {
		case KBool:
			if t.U != 0 {
				return "true"
			}
			return "false"
		case KBV:
			return bvConst(t.Sort.W, t.U)
		case KFP:
			return fpConst(t.Sort.W, t.F)
		}
	case OVar:
		return VarSym(t)
	}
	if p.inline {
		var b strings.Builder
		p.expr(&b, t)
		return b.String()
	}
	return fmt.Sprintf("t%d", t.ID)
}

func (p *Printer) expr(b *strings.Builder, t *Term) {
	if t.Op == OConst || t.Op == OVar {
		b.WriteString(p.ref(t))
		return
	}
	nary := func(op string) {
		b.WriteString("(" + op)
		for _, a := range t.Args {
			b.WriteString(" ")
			b.WriteString(p.ref(a))
		}
		b.WriteString(")")
	}
	switch t.Op {
	case ONot:
		nary("not")
	case OAnd:
		nary("and")
	case OOr:
		nary("or")
	case OIte:
		nary("ite")
	case OEq:
		nary("=")
	case OAdd:
		nary("bvadd")
	case OSub:
		nary("bvsub")
	case OMul:
		nary("bvmul")
	case OUDiv:
		nary("bvudiv")
	case OSDiv:
		nary("bvsdiv")
	case OURem:
		nary("bvurem")
	case OSRem:
		nary("bvsrem")
	case OBAnd:
		nary("bvand")
	case OBOr:
		nary("bvor")
	case OBXor:
		nary("bvxor")
	case OShl:
		nary("bvshl")
	case OLShr:
		nary("bvlshr")
	case OAShr:
		nary("bvashr")
	case ONeg:
		nary("bvneg")
	case OBNot:
		nary("bvnot")
	case OULt:
		nary("bvult")
	case OULe:
		nary("bvule")
	case OSLt:
		nary("bvslt")
	case OSLe:
		nary("bvsle")
	case OExtract:
		nary(fmt.Sprintf("(_ extract %d %d)", t.U>>8, t.U&0xff))
	case OZExt:
		nary(fmt.Sprintf("(_ zero_extend %d)", t.Sort.W-t.Args[0].Sort.W))
	case OSExt:
		nary(fmt.Sprintf("(_ sign_extend %d)", t.Sort.W-t.Args[0].Sort.W))
	case OConcat:
		nary("concat")
	case OFAdd:
		nary("fp.add RNE")
	case OFSub:
		nary("fp.sub RNE")
	case OFMul:
		nary("fp.mul RNE")
	case OFDiv:
		nary("fp.div RNE")
	case OFNeg:
		nary("fp.neg")
	case OFAbs:
		nary("fp.abs")
	case OFLt:
		nary("fp.lt")
	case OFLe:
		nary("fp.leq")
	case OFEq:
		nary("fp.eq")
	case OFIsNaN:
		nary("fp.isNaN")
	case OFIsInf:
		nary("fp.isInfinite")
	case OFToSBV:
		nary(fmt.Sprintf("(_ fp.to_sbv %d) RTZ", t.Sort.W))
	case OFToUBV:
		nary(fmt.Sprintf("(_ fp.to_ubv %d) RTZ", t.Sort.W))
	case OSBVToF:
		nary(fpTo(t.Sort.W) + " RNE")
	case OUBVToF:
		nary(fpToU(t.Sort.W) + " RNE")
	case OFToF:
		nary(fpTo(t.Sort.W) + " RNE")
	case OFSqrt:
		nary("fp.sqrt RNE")
	case OFRound:
		nary("fp.roundToIntegral " + rmodes[t.U])
	case OBitsF:
		nary(fpTo(t.Sort.W))
	case OUF:
		if len(t.Args) == 0 {
			b.WriteString(symName("f_", t.Name))
		} else {
			nary(symName("f_", t.Name))
		}
	default:
		panic(fmt.Sprintf("print: unknown op %d", t.Op))
	}
}

// Define returns the declarations/definitions needed (not yet emitted by this
// printer) so that Ref(t) is meaningful for each t in ts.
func (p *Printer) Define(ts ...*Term) string {
	var order []*Term
	seen := map[int]bool{}
	var walk func(t *Term)
	walk = func(t *Term) {
		if seen[t.ID] || p.defined[t.ID] {
			return
		}
		seen[t.ID] = true
		for _, a := range t.Args {
			walk(a)
		}
		if t.Op != OConst {
			order = append(order, t)
		}
	}
	for _, t := range ts {
		walk(t)
	}
	sort.SliceStable(order, func(i, j int) bool { return order[i].ID < order[j].ID })
	var b strings.Builder
	ufDone := map[string]bool{}
	for _, t := range order {
		p.defined[t.ID] = true
		switch t.Op {
		case OVar:
			fmt.Fprintf(&b, "(declare-const %s %s)\n", VarSym(t), t.Sort.SMT())
		default:
			if t.Op == OUF {
				k := "uf:" + t.Name
				if !ufDone[k] && !p.definedUF(t.Name) {
					ufDone[k] = true
					p.markUF(t.Name)
					b.WriteString("(declare-fun " + symName("f_", t.Name) + " (")
					for i, a := range t.Args {
						if i > 0 {
							b.WriteString(" ")
						}
						b.WriteString(a.Sort.SMT())
					}
					b.WriteString(") " + t.Sort.SMT() + ")\n")
				}
			}
			fmt.Fprintf(&b, "(define-fun t%d () %s ", t.ID, t.Sort.SMT())
			p.expr(&b, t)
			b.WriteString(")\n")
		}
	}
	return b.String()
}

var ufKeyBase = -1000000

func (p *Printer) definedUF(name string) bool { return p.defined[ufID(name)] }
func (p *Printer) markUF(name string)         { p.defined[ufID(name)] = true }

var ufIDs = map[string]int{}

func ufID(name string) int {
	mu.Lock()
	defer mu.Unlock()
	if id, ok := ufIDs[name]; ok {
		return id
	}
	ufKeyBase--
	ufIDs[name] = ufKeyBase
	return ufKeyBase
}

func (p *Printer) Ref(t *Term) string { return p.ref(t) }
