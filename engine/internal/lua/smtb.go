package lua

import (
	"fmt"
	"math/big"
	"strings"
)

// B accumulates SMT-LIB2 declarations and definitions. Expressions are plain
// strings; larger ones are named with define-fun so that shared
// sub-expressions are not duplicated textually.
type B struct {
	sb    strings.Builder
	n     int
	Vars  []string          // declared constants, in order
	Sorts map[string]string // name -> sort (declared and defined)
}

func NewB() *B { return &B{Sorts: map[string]string{}} }

// Var declares a fresh constant. All symbols carry a v_/t_ prefix (cvc5
// rejects user symbols that shadow theory symbols).
func (b *B) Var(name, sort string) string {
	n := "v_" + name
	if _, dup := b.Sorts[n]; dup {
		panic("duplicate SMT variable " + n)
	}
	fmt.Fprintf(&b.sb, "(declare-const %s %s)\n", n, sort)
	b.Vars = append(b.Vars, n)
	b.Sorts[n] = sort
	return n
}

// Def names an expression (unless it is already atomic/short).
func (b *B) Def(sort, e string) string {
	if len(e) <= 28 || !strings.HasPrefix(e, "(") {
		return e
	}
	b.n++
	n := fmt.Sprintf("t_%d", b.n)
	fmt.Fprintf(&b.sb, "(define-fun %s () %s %s)\n", n, sort, e)
	b.Sorts[n] = sort
	return n
}

// Named defines a symbol with a chosen name (for outputs read back from models).
func (b *B) Named(name, sort, e string) string {
	n := "o_" + name
	fmt.Fprintf(&b.sb, "(define-fun %s () %s %s)\n", n, sort, e)
	b.Sorts[n] = sort
	return n
}

func (b *B) Comment(s string) { fmt.Fprintf(&b.sb, "; %s\n", strings.ReplaceAll(s, "\n", "\n; ")) }

func (b *B) Text() string { return b.sb.String() }

// ---- boolean helpers with constant simplification ----

const (
	T = "true"
	F = "false"
)

func And(xs ...string) string {
	var out []string
	seen := map[string]bool{}
	for _, x := range xs {
		if x == F {
			return F
		}
		if x == T || x == "" || seen[x] {
			continue
		}
		seen[x] = true
		out = append(out, x)
	}
	switch len(out) {
	case 0:
		return T
	case 1:
		return out[0]
	}
	return "(and " + strings.Join(out, " ") + ")"
}

func Or(xs ...string) string {
	var out []string
	seen := map[string]bool{}
	for _, x := range xs {
		if x == T {
			return T
		}
		if x == F || x == "" || seen[x] {
			continue
		}
		seen[x] = true
		out = append(out, x)
	}
	switch len(out) {
	case 0:
		return F
	case 1:
		return out[0]
	}
	return "(or " + strings.Join(out, " ") + ")"
}

func Not(x string) string {
	switch x {
	case T:
		return F
	case F:
		return T
	}
	if strings.HasPrefix(x, "(not ") && strings.HasSuffix(x, ")") {
		inner := x[5 : len(x)-1]
		if balanced(inner) {
			return inner
		}
	}
	return "(not " + x + ")"
}

func balanced(s string) bool {
	d := 0
	for i := 0; i < len(s); i++ {
		switch s[i] {
		case '(':
			d++
		case ')':
			d--
			if d < 0 {
				return false
			}
		case ' ':
			if d == 0 {
				return false
			}
		}
	}
	return d == 0
}

func Implies(a, b string) string { return Or(Not(a), b) }

func Ite(c, a, b string) string {
	switch {
	case c == T:
		return a
	case c == F:
		return b
	case a == b:
		return a
	}
	return "(ite " + c + " " + a + " " + b + ")"
}

func BoolIte(c, a, b string) string {
	switch {
	case c == T:
		return a
	case c == F:
		return b
	case a == b:
		return a
	case a == T && b == F:
		return c
	case a == F && b == T:
		return Not(c)
	case a == T:
		return Or(c, b)
	case a == F:
		return And(Not(c), b)
	case b == T:
		return Or(Not(c), a)
	case b == F:
		return And(c, a)
	}
	return "(ite " + c + " " + a + " " + b + ")"
}

func Eq(a, b string) string {
	if a == b {
		return T
	}
	if ia, ok := intLit(a); ok {
		if ib, ok := intLit(b); ok {
			if ia.Cmp(ib) == 0 {
				return T
			}
			return F
		}
	}
	return "(= " + a + " " + b + ")"
}

// IntLit renders an integer constant.
func IntLit(v int64) string {
	if v < 0 {
		return fmt.Sprintf("(- %d)", -v)
	}
	return fmt.Sprintf("%d", v)
}

func bigLit(v *big.Int) string {
	if v.Sign() < 0 {
		return "(- " + new(big.Int).Neg(v).String() + ")"
	}
	return v.String()
}

// intLit recognises integer constants as rendered by IntLit/bigLit.
func intLit(s string) (*big.Int, bool) {
	neg := false
	if strings.HasPrefix(s, "(- ") && strings.HasSuffix(s, ")") {
		neg = true
		s = s[3 : len(s)-1]
	}
	if s == "" {
		return nil, false
	}
	for i := 0; i < len(s); i++ {
		if s[i] < '0' || s[i] > '9' {
			return nil, false
		}
	}
	v, ok := new(big.Int).SetString(s, 10)
	if !ok {
		return nil, false
	}
	if neg {
		v.Neg(v)
	}
	return v, true
}
