package lua

import (
	"os"
	"os/exec"
	"path/filepath"
	"strings"
	"testing"
	"time"
)

func repoDir() string {
	if v := os.Getenv("VERIF_REPO"); v != "" {
		return v
	}
	return "/repo"
}

func z3(t *testing.T, script string) string {
	t.Helper()
	f := filepath.Join(t.TempDir(), "q.smt2")
	os.WriteFile(f, []byte(script), 0o644)
	start := time.Now()
	out, _ := exec.Command("z3", "-T:60", f).CombinedOutput()
	t.Logf("z3 %.2fs", time.Since(start).Seconds())
	return string(out)
}

func checkAll(t *testing.T, e *Enc) {
	t.Helper()
	if o := e.Outside(); len(o) > 0 {
		t.Fatalf("outside: %v", o)
	}
	for _, p := range e.Props {
		var extra []string
		if p.Expect == "unsat" {
			extra = []string{Not(p.Term)}
		} else {
			extra = []string{p.Term}
		}
		out := z3(t, e.Script(extra, e.Inputs))
		first := strings.TrimSpace(strings.SplitN(out, "\n", 2)[0])
		if first != p.Expect {
			t.Errorf("%s: %q: got %s want %s\n%s", e.Name, p.Label, first, p.Expect, out)
		}
	}
}

func TestScriptsOfRepo(t *testing.T) {
	if _, err := exec.LookPath("z3"); err != nil {
		t.Skip("no z3")
	}
	dir := filepath.Join(repoDir(), "lib/limit")
	ps, _, err := ExtractConst(dir, "periodScript")
	if err != nil {
		t.Fatal(err)
	}
	ts, _, err := ExtractConst(dir, "script")
	if err != nil {
		t.Fatal(err)
	}
	pc, err := Parse(ps)
	if err != nil {
		t.Fatal(err)
	}
	tc, err := Parse(ts)
	if err != nil {
		t.Fatal(err)
	}
	e, err := EncodePeriod(pc, 5, 6)
	if err != nil {
		t.Fatal(err)
	}
	checkAll(t, e)
	e, err = EncodePeriodStep(pc, 1<<20)
	if err != nil {
		t.Fatal(err)
	}
	checkAll(t, e)
	e, err = EncodeToken(tc, 4, 3, 2, 0)
	if err != nil {
		t.Fatal(err)
	}
	checkAll(t, e)
	e, err = EncodeTokenStep(tc, 3, 2, 0)
	if err != nil {
		t.Fatal(err)
	}
	checkAll(t, e)
}

func TestSubsetRejects(t *testing.T) {
	for _, src := range []string{
		"for i=1,3 do end",
		"local t = {}",
		"return a .. b",
		"local x = 2 ^ 3",
		"while true do end",
		"local function f() end",
		"x = 1",
		"return redis.call(ARGV[1], KEYS[1])",
		"return redis.call('zadd', KEYS[1], 1, 2)",
		"return string.len('x')",
	} {
		chunk, err := Parse(src)
		if err == nil {
			m := NewMachine(NewB(), 1)
			_, err = m.Run(chunk, "0", []string{"0"}, []string{"1"}, T)
		}
		if err == nil {
			t.Errorf("accepted: %s", src)
		}
	}
}
