package lua

import (
	"os"
	"os/exec"
	"path/filepath"
	"strings"
	"testing"
	"time"
)

func repoDir() string {
	if v := os.Getenv("VERIF_REPO"); v != "" {
		return v
	}
	return "/repo"
}

func z3(t *testing.T, script string) string {
	t.Helper()
	f := filepath.Join(t.TempDir(), "q.smt2")
	os.WriteFile(f, []byte(script), 0o644)
	start := time.Now()
	out, _ := exec.Command("z3", "-T:60", f).CombinedOutput()
	t.Logf("z3 %.2fs", time.Since(start).Seconds())
	return string(out)
}

func checkAll(t *testing.T, e *Enc) {
	t.Helper()
	if o := e.Outside(); len(o) > 0 {
		t.Fatalf("outside: %v", o)
	}
	for _, p := range e.Props {
		var extra []string
		if p.Expect == "unsat" {
			extra = []string{Not(p.Term)}
		} else {
			extra = []string{p.Term}
		}
		out := z3(t, e.Script(extra, e.Inputs))
		first := strings.TrimSpace(strings.SplitN(out, "\n", 2)[0])
		if first != p.Expect {
			t.Errorf("%s: %q: got %s want %s\n%s", e.Name, p.Label, first, p.Expect, out)
		}
	}
}

func TestScriptsOfRepo(t *testing.T) {
	if _, err := exec.LookPath("z3"); err != nil {
		t.Skip("no z3")
	}
	dir := filepath.Join(repoDir(), "lib/limit")
	ps, _, err := ExtractConst(dir, "periodScript")
	if err != nil {
		t.Fatal(err)
	}
	ts, _, err := ExtractConst(dir, "script")
	if err != nil {
		t.Fatal(err)
	}
	pc, err := Parse(ps)
	if err != nil {
		t.Fatal(err)
	}
	tc, err := Parse(ts)
	if err != nil {
		t.Fatal(err)
	}
	e, err := EncodePeriod(pc, 5, 6)
	if err != nil {
		t.Fatal(err)
	}
	checkAll(t, e)
	e, err = EncodePeriodStep(pc, 1<<20)
	if err != nil {
		t.Fatal(err)
	}
	checkAll(t, e)
	e, err = EncodeToken(tc, 4, 3, 2, 0)
	if err != nil {
		t.Fatal(err)
	}
	checkAll(t, e)
	e, err = EncodeTokenStep(tc, 3, 2, 0)
	if err != nil {
		t.Fatal(err)
	}
	checkAll(t, e)
}

func TestSubsetRejects(t *testing.T) {
	for _, src := range []string{
		"for i=1,3 do end",
		"local t = {}",
		"return a .. b",
		"local x = 2 ^ 3",
		"while true do end",
		"local function f() end",
		"x = 1",
		"return redis.call(ARGV[1], KEYS[1])",
		"return redis.call('zadd', KEYS[1], 1, 2)",
		"return string.len('x')",
	} {
		chunk, err := Parse(src)
		if err == nil {
			m := NewMachine(NewB(), 1)
			_, err = m.Run(chunk, "0", []string{"0"}, []string{"1"}, T)
		}
		if err == nil {
			t.Errorf("accepted: %s", src)
		}
	}
}

// evalConcrete runs a script with concrete KEYS/ARGV on an empty one-key
// store at clock 100 and returns "int:<v>", "nil", "err" or "str".
func evalConcrete(t *testing.T, src string, argv ...string) string {
	t.Helper()
	chunk, err := Parse(src)
	if err != nil {
		t.Fatalf("%s: %v", src, err)
	}
	b := NewB()
	m := NewMachine(b, 2)
	rep, err := m.Run(chunk, "100", []string{"0", "1"}, argv, T)
	if err != nil {
		t.Fatalf("%s: %v", src, err)
	}
	if len(m.Outside) > 0 {
		return "outside"
	}
	kind, val := replyOutputs(b, "x", rep)
	und := b.Named("undef", "Bool", m.Undef)
	out := z3(t, "(set-option :produce-models true)\n"+b.Text()+"(check-sat)\n(get-value ("+kind+" "+val+" "+und+"))\n")
	if !strings.HasPrefix(out, "sat") {
		t.Fatalf("%s: %s", src, out)
	}
	md := Model{}
	for _, l := range strings.Split(out, "\n") {
		l = strings.Trim(strings.TrimSpace(l), "()")
		if f := strings.SplitN(l, " ", 2); len(f) == 2 {
			md[strings.TrimSpace(f[0])] = strings.Trim(strings.TrimSpace(f[1]), "()")
			if strings.HasPrefix(strings.TrimSpace(f[1]), "(- ") {
				md[strings.TrimSpace(f[0])] = "(" + strings.TrimSpace(f[1])
			}
		}
	}
	if md.Bool(und) {
		return "undef"
	}
	switch md.Int(kind) {
	case 0:
		return "int:" + md[val]
	case 1:
		return "nil"
	case 2:
		return "err"
	}
	return "str"
}

func TestEvaluatorSemantics(t *testing.T) {
	if _, err := exec.LookPath("z3"); err != nil {
		t.Skip("no z3")
	}
	cases := []struct{ src, want string }{
		{"return 1 + 2 * 3", "int:7"},
		{"return (nil or 5) + 1", "int:6"},
		{"return false and 1 or 2", "int:2"},
		{"return 0 and 7", "int:7"}, // 0 is truthy in Lua
		{"return not nil", "int:1"},
		{"return nil == false", "nil"},
		{"return tonumber(false) == nil", "int:1"},
		{"return redis.call('get', KEYS[1]) == false", "int:1"},
		{"return tonumber(redis.call('get', KEYS[1]))", "nil"},
		{"return nil + 1", "err"},
		{"return 1 < nil", "err"},
		{"return ARGV[1] + 1", "int:8"},
		{"return tonumber(ARGV[1]) == 7", "int:1"},
		{"return ARGV[1] == 7", "nil"}, // a string never equals a number
		{"return math.floor(7/2)", "int:3"},
		{"return math.floor((0-7)/2)", "int:-4"},
		{"return math.floor(7/2*4)", "int:14"},
		{"return math.max(1, 5, 3) - math.min(4, 2)", "int:3"},
		{"return 7/2 > 3", "outside"},
		{"return 1/0", "outside"},
		{"return math.floor(1/(1-1))", "undef"},
		{"local x = 1 if x == 1 then x = 2 elseif x == 2 then x = 3 else x = 4 end return x", "int:2"},
		{"local x = 1 if x == 1 then local x = 9 end return x", "int:1"},
		{"local x = 5 if x > 1 then return 10 end return 20", "int:10"},
		{"redis.call('set', KEYS[1], 5) return redis.call('incrby', KEYS[1], 3)", "int:8"},
		{"redis.call('set', KEYS[1], 5) return redis.call('ttl', KEYS[1])", "int:-1"},
		{"return redis.call('ttl', KEYS[1])", "int:-2"},
		{"redis.call('setex', KEYS[1], 9, 5) return redis.call('ttl', KEYS[1])", "int:9"},
		{"redis.call('setex', KEYS[1], 0, 5) return 1", "err"},
		{"redis.call('setex', KEYS[1], 9, 5) redis.call('incrby', KEYS[1], 1) return redis.call('ttl', KEYS[1])", "int:9"},
		{"redis.call('incrby', KEYS[1], 1) return redis.call('expire', KEYS[1], 4) + redis.call('ttl', KEYS[1])", "int:5"},
		{"return redis.call('expire', KEYS[1], 4)", "int:0"},
		{"redis.call('set', KEYS[1], 1) redis.call('expire', KEYS[1], 0) return redis.call('exists', KEYS[1])", "int:0"},
		{"redis.call('set', KEYS[1], 1) redis.call('set', KEYS[2], 2) return redis.call('get', KEYS[2]) + redis.call('del', KEYS[1]) + redis.call('exists', KEYS[1])", "int:3"},
		{"return", "nil"},
		{"local a = 1", "nil"},
		{"return true", "int:1"},
		{"return -ARGV[1]", "int:-7"},
	}
	for _, c := range cases {
		got := evalConcrete(t, c.src, "7")
		got = strings.NewReplacer("(", "", ")", "", "- ", "-").Replace(got)
		if got != c.want {
			t.Errorf("%s: got %s want %s", c.src, got, c.want)
		}
	}
}
