package lua

// Concrete histories (what a counterexample / witness / validation trace is)
// and the reference semantics of the C08 statement evaluated on them. The
// JSON form is what the generated native test reads.

type Step struct {
	Dt int64 `json:"dt"` // advance of the Redis server clock (seconds) before this request

	// period limiter
	Key    string `json:"key,omitempty"`
	Window int64  `json:"window,omitempty"`

	// token limiter
	Now int64 `json:"now,omitempty"`
	N   int64 `json:"n,omitempty"`

	// expectation (filled by the reference below, or by the encoder for validation traces)
	ExpectCode   int   `json:"expect_code"`   // period: 1 Allowed, 2 HitQuota, 3 OverQuota (Go API codes); -1: error expected
	ExpectTTL    int64 `json:"expect_ttl"`    // period: remaining TTL of the key after the take; token: TTL of the bucket keys (0 = not checked)
	ExpectGrant  bool  `json:"expect_grant"`  // token
	ExpectTokens int64 `json:"expect_tokens"` // token: stored level after the request (-1 = not checked)
}

type History struct {
	ID    string `json:"id"`
	Kind  string `json:"kind"` // "period" | "token"
	Quota int64  `json:"quota,omitempty"`
	Rate  int64  `json:"rate,omitempty"`
	Burst int64  `json:"burst,omitempty"`
	Steps []Step `json:"steps"`
	// what the expectation is: "statement" (reference semantics of the property) or "encoder"
	Oracle string `json:"oracle"`
	Note   string `json:"note,omitempty"`
}

// Go API codes of lib/limit (periodlimit.go): the script's 1/2/0 map to these.
const (
	CodeAllowed   = 1
	CodeHitQuota  = 2
	CodeOverQuota = 3
)

// RefPeriod fills the expectation of a period-limiter history from the
// statement: within one window of a key the first quota-1 takes are Allowed,
// the quota-th HitQuota, every later one OverQuota; a new window starts with
// the first take at/after the expiry of the previous one (start + window of
// the take that opened it).
func RefPeriod(h *History) {
	type win struct {
		active bool
		end    int64
		cnt    int64
	}
	st := map[string]*win{}
	var clock int64
	for i := range h.Steps {
		s := &h.Steps[i]
		clock += s.Dt
		w := st[s.Key]
		if w == nil {
			w = &win{}
			st[s.Key] = w
		}
		if !w.active || clock >= w.end {
			w.active, w.end, w.cnt = true, clock+s.Window, 0
		}
		w.cnt++
		switch {
		case w.cnt < h.Quota:
			s.ExpectCode = CodeAllowed
		case w.cnt == h.Quota:
			s.ExpectCode = CodeHitQuota
		default:
			s.ExpectCode = CodeOverQuota
		}
		s.ExpectTTL = w.end - clock
	}
	h.Oracle = "statement"
}

// RefToken fills the expectation of a token-limiter history: a bucket of
// capacity burst, initially full, refilled with rate tokens per whole second
// of the caller-supplied clock; a request for n is granted iff n tokens are
// available.
func RefToken(h *History) {
	lvl := h.Burst
	var ts int64
	for i := range h.Steps {
		s := &h.Steps[i]
		if i == 0 {
			ts = s.Now
		}
		d := s.Now - ts
		if d < 0 {
			d = 0
		}
		lvl += d * h.Rate
		if lvl > h.Burst {
			lvl = h.Burst
		}
		s.ExpectGrant = lvl >= s.N
		if s.ExpectGrant {
			lvl -= s.N
		}
		ts = s.Now
		s.ExpectTokens = lvl
		s.ExpectTTL = 0
	}
	h.Oracle = "statement"
}
