package lua

import (
	"fmt"
	"math/big"
	"strings"
)

// Prop is one assertion (Expect "unsat": the negation must be unsatisfiable
// under the assumptions) or one witness (Expect "sat": vacuity guard).
type Prop struct {
	Label  string
	Term   string
	Expect string
}

// Model is a solver model: symbol -> value text ("5", "(- 3)", "true", "(/ 1 2)").
type Model map[string]string

func (m Model) Int(name string) int64 {
	s, ok := m[name]
	if !ok {
		return 0
	}
	if v, ok := intLit(strings.TrimSpace(s)); ok && v.IsInt64() {
		return v.Int64()
	}
	// "5.0" style reals
	if r, ok := new(big.Rat).SetString(strings.TrimSpace(s)); ok && r.IsInt() && r.Num().IsInt64() {
		return r.Num().Int64()
	}
	return 0
}

func (m Model) Bool(name string) bool { return strings.TrimSpace(m[name]) == "true" }

// Enc is an encoded family of histories: declarations + definitions (Prefix),
// assumptions, assertions/witnesses, and the glue to turn models into
// concrete histories and back.
type Enc struct {
	Name     string
	Kind     string // "period" | "token"
	B        *B
	Machines []*Machine
	Assume   []string
	Props    []Prop
	Inputs   []string // symbols whose values make up a history
	Outputs  []string // encoder outputs read back for validation traces
	Bounds   string

	// Decode turns a model into concrete histories to replay (one, or for
	// inductive steps a reconstruction from the empty store); nil if the
	// model cannot be turned into a history.
	Decode func(m Model) *History
	// Pin returns the asserts that fix the inputs to the given history.
	Pin func(h *History) []string
	// Fill copies the encoder's outputs (from a model of the pinned
	// script) into the expectation fields of h.
	Fill func(h *History, m Model)
	// Small returns extra asserts asking for a model that is cheap to replay.
	Small []string
}

func (e *Enc) Undef() string {
	var u []string
	for _, m := range e.Machines {
		u = append(u, m.Undef)
	}
	return Or(u...)
}

func (e *Enc) Outside() []string {
	var out []string
	for _, m := range e.Machines {
		out = append(out, m.Outside...)
	}
	return out
}

// Script renders a standalone SMT-LIB2 script: assumptions, extra asserts,
// check-sat, get-value of the listed symbols.
func (e *Enc) Script(extra []string, get []string) string {
	var sb strings.Builder
	sb.WriteString("(set-option :produce-models true)\n(set-logic ALL)\n")
	sb.WriteString(e.B.Text())
	for _, a := range e.Assume {
		sb.WriteString("(assert " + a + ")\n")
	}
	for _, a := range extra {
		sb.WriteString("(assert " + a + ")\n")
	}
	sb.WriteString("(check-sat)\n")
	if len(get) > 0 {
		sb.WriteString("(get-value (" + strings.Join(get, " ") + "))\n")
	}
	return sb.String()
}

func le(a, b string) string { return "(<= " + a + " " + b + ")" }
func lt(a, b string) string { return "(< " + a + " " + b + ")" }
func ge(a, b string) string { return "(>= " + a + " " + b + ")" }
func sub(a, b string) string {
	return "(- " + a + " " + b + ")"
}
func add(a, b string) string { return "(+ " + a + " " + b + ")" }

const clockMax = "4294967296" // 2^32

// replyOutputs names the observable reply of one invocation.
func replyOutputs(b *B, tag string, r Reply) (kind, val string) {
	kind = b.Named("kind_"+tag, "Int", Ite(r.Err, "2", Ite(r.Nil, "1", Ite(r.Int, "0", "3"))))
	val = b.Named("int_"+tag, "Int", r.IntV)
	return
}

func slotTTL(s Slot, clock string) string {
	return Ite(Not(s.Present), "(- 2)", Ite(s.HasExp, sub(s.Exp, clock), "(- 1)"))
}

func sameReply(a, b Reply) string {
	return And(Eq(a.Err, b.Err), Eq(a.Nil, b.Nil), Eq(a.Int, b.Int), Eq(a.Str, b.Str), Implies(a.Int, Eq(a.IntV, b.IntV)))
}

// ===================================================================
// L08a: the period script
// ===================================================================

var periodKeys = []string{"a", "b"}

// EncodePeriod encodes K takes, each on one of two keys (symbolic choice),
// with a symbolic non-decreasing server clock, symbolic quota in
// [1,quotaMax] and a symbolic window argument per take in [1,2^20] (the
// aligned mode of PeriodLimit passes a different window on every call; the
// plain mode is the special case of equal windows), starting from the empty
// store.
func EncodePeriod(chunk []Stmt, K int, quotaMax int64) (*Enc, error) {
	b := NewB()
	e := &Enc{Name: "period-bmc", Kind: "period", B: b}
	m := NewMachine(b, 2)
	mA := NewMachine(b, 2) // the same history with the takes on key b removed
	mB := NewMachine(b, 2) // ... with the takes on key a removed
	e.Machines = []*Machine{m, mA, mB}
	q := b.Var("quota", "Int")
	e.Assume = append(e.Assume, le("1", q), le(q, IntLit(quotaMax)))
	e.Inputs = append(e.Inputs, q)

	// reference state per key
	type ref struct{ act, end, cnt string }
	refs := []ref{{F, "0", "0"}, {F, "0", "0"}}

	var okReplies, okExpiry, okIndep []string
	var clocks, keys, wins, codes []string
	prev := ""
	for i := 1; i <= K; i++ {
		c := b.Var(fmt.Sprintf("clock%d", i), "Int")
		k := b.Var(fmt.Sprintf("key%d", i), "Int")
		w := b.Var(fmt.Sprintf("window%d", i), "Int")
		clocks, keys, wins = append(clocks, c), append(keys, k), append(wins, w)
		e.Inputs = append(e.Inputs, c, k, w)
		if prev == "" {
			e.Assume = append(e.Assume, le("0", c))
		} else {
			e.Assume = append(e.Assume, le(prev, c))
		}
		prev = c
		e.Assume = append(e.Assume, lt(c, clockMax), le("0", k), le(k, "1"), le("1", w), le(w, "1048576"))

		b.Comment(fmt.Sprintf("---- take %d ----", i))
		rep, err := m.Run(chunk, c, []string{k}, []string{q, w}, T)
		if err != nil {
			return nil, err
		}
		repA, err := mA.Run(chunk, c, []string{k}, []string{q, w}, Eq(k, "0"))
		if err != nil {
			return nil, err
		}
		repB, err := mB.Run(chunk, c, []string{k}, []string{q, w}, Eq(k, "1"))
		if err != nil {
			return nil, err
		}

		// reference: definitional transcription of the statement
		cur := ref{
			act: b.Def("Bool", BoolIte(Eq(k, "0"), refs[0].act, refs[1].act)),
			end: b.Def("Int", Ite(Eq(k, "0"), refs[0].end, refs[1].end)),
			cnt: b.Def("Int", Ite(Eq(k, "0"), refs[0].cnt, refs[1].cnt)),
		}
		fresh := b.Def("Bool", Or(Not(cur.act), ge(c, cur.end)))
		ncnt := b.Def("Int", Ite(fresh, "1", add(cur.cnt, "1")))
		nend := b.Def("Int", Ite(fresh, add(c, w), cur.end))
		for j := range refs {
			sel := Eq(k, IntLit(int64(j)))
			refs[j] = ref{
				act: b.Def("Bool", Or(sel, refs[j].act)),
				end: b.Def("Int", Ite(sel, nend, refs[j].end)),
				cnt: b.Def("Int", Ite(sel, ncnt, refs[j].cnt)),
			}
		}
		want := b.Def("Int", Ite(lt(ncnt, q), "1", Ite(Eq(ncnt, q), "2", "0")))
		codes = append(codes, want)

		okReplies = append(okReplies, b.Def("Bool", And(rep.Int, Eq(rep.IntV, want))))
		taken := m.readSlot(k)
		exp := []string{taken.Present, taken.HasExp, Eq(taken.Exp, nend)}
		for j := range m.Slots {
			exp = append(exp, Implies(m.Slots[j].Present, m.Slots[j].HasExp))
		}
		okExpiry = append(okExpiry, b.Def("Bool", And(exp...)))
		okIndep = append(okIndep, b.Def("Bool", And(Implies(Eq(k, "0"), sameReply(rep, repA)), Implies(Eq(k, "1"), sameReply(rep, repB)))))

		kind, val := replyOutputs(b, fmt.Sprint(i), rep)
		ttl := b.Named(fmt.Sprintf("ttl_%d", i), "Int", slotTTL(taken, c))
		e.Outputs = append(e.Outputs, kind, val, ttl)
	}
	e.Props = []Prop{
		{"within one window of a key the first quota-1 takes reply 1 (Allowed), the quota-th 2 (HitQuota), later ones 0 (OverQuota); the count restarts only at/after the window's expiry", And(okReplies...), "unsat"},
		{"the expiry is set exactly when the counter is created (clock+window of the creating take) and no key is left without expiry", And(okExpiry...), "unsat"},
		{"keys are independent: the replies on a key are the same as in the history with the other key's takes removed", And(okIndep...), "unsat"},
		{"every encoded operation is inside the exactly-modelled fragment (integers below 2^53, no division by zero)", Not(e.Undef()), "unsat"},
	}
	if K >= 4 {
		intIs := func(i int, v string) string { return "(= o_int_" + fmt.Sprint(i) + " " + v + ")" }
		e.Props = append(e.Props,
			Prop{"witness: Allowed, HitQuota, OverQuota, then Allowed again after the expiry on one key", And(Eq(keys[0], keys[1]), Eq(keys[1], keys[2]), Eq(keys[2], keys[3]), intIs(1, "1"), intIs(2, "2"), intIs(3, "0"), intIs(4, "1")), "sat"},
			Prop{"witness: two keys interleaved, both hit their quota independently", And(Not(Eq(keys[0], keys[1])), Eq(keys[0], keys[2]), Eq(keys[1], keys[3]), intIs(1, "1"), intIs(2, "1"), intIs(3, "2"), intIs(4, "2")), "sat"},
		)
	}
	_ = codes
	e.Bounds = fmt.Sprintf("%d takes on 2 keys (symbolic key per take), quota in [1,%d], window argument per take in [1,2^20], server clock non-decreasing in [0,2^32) seconds, from the empty store", K, quotaMax)

	e.Decode = func(md Model) *History {
		h := &History{Kind: "period", Quota: md.Int(q)}
		var last int64
		for i := 0; i < K; i++ {
			c := md.Int(clocks[i])
			dt := c - last
			if i == 0 {
				dt = 0
			}
			last = c
			h.Steps = append(h.Steps, Step{Dt: dt, Key: periodKeys[md.Int(keys[i])&1], Window: md.Int(wins[i])})
		}
		RefPeriod(h)
		return h
	}
	e.Pin = func(h *History) []string {
		out := []string{Eq(q, IntLit(h.Quota))}
		var clock int64
		for i := 0; i < K; i++ {
			s := Step{Dt: 0, Key: "a", Window: 1}
			if i < len(h.Steps) {
				s = h.Steps[i]
			}
			clock += s.Dt
			ki := int64(0)
			if s.Key == "b" {
				ki = 1
			}
			out = append(out, Eq(clocks[i], IntLit(clock)), Eq(keys[i], IntLit(ki)), Eq(wins[i], IntLit(s.Window)))
		}
		return out
	}
	e.Fill = func(h *History, md Model) {
		for i := range h.Steps {
			if i >= K {
				break
			}
			h.Steps[i].ExpectCode = periodGoCode(md.Int(fmt.Sprintf("o_kind_%d", i+1)), md.Int(fmt.Sprintf("o_int_%d", i+1)))
			h.Steps[i].ExpectTTL = md.Int(fmt.Sprintf("o_ttl_%d", i+1))
		}
		h.Oracle = "encoder"
	}
	return e, nil
}

// periodGoCode maps a script reply to what PeriodLimit.Take reports
// (periodlimit.go: 0 => OverQuota(3), 1 => Allowed(1), 2 => HitQuota(2),
// anything else an error).
func periodGoCode(kind, v int64) int {
	if kind != 0 {
		return -1
	}
	switch v {
	case 0:
		return CodeOverQuota
	case 1:
		return CodeAllowed
	case 2:
		return CodeHitQuota
	}
	return -1
}

// EncodePeriodStep is the one-step inductive form: from an arbitrary store
// (two keys) coupled with an arbitrary reference state by the invariant
// below, one take gives the reply the statement demands and re-establishes the
// invariant. Together with the empty store satisfying the invariant this
// covers histories of any length and any number of takes.
//
// Invariant at the instant c0 of the previous operation, per key:
//
//	key effectively present (present and expiry > c0)  <=>  reference window open (active and end > c0);
//	if so: it has an expiry, expiry == end of the reference window, 1 <= end-c0 <= 2^20,
//	       stored value == number of takes in the window >= 1 (windows with up to 2^40 takes).
func EncodePeriodStep(chunk []Stmt, quotaMax int64) (*Enc, error) {
	b := NewB()
	e := &Enc{Name: "period-step", Kind: "period", B: b}
	m := NewMachine(b, 2)
	e.Machines = []*Machine{m}
	q := b.Var("quota", "Int")
	c0 := b.Var("clock0", "Int")
	c := b.Var("clock1", "Int")
	k := b.Var("key1", "Int")
	w := b.Var("window1", "Int")
	e.Inputs = []string{q, c0, c, k, w}
	e.Assume = append(e.Assume, le("1", q), le(q, IntLit(quotaMax)), le("0", c0), le(c0, c), lt(c, clockMax), le("0", k), le(k, "1"), le("1", w), le(w, "1048576"))

	type ref struct{ act, end, cnt string }
	refs := make([]ref, 2)
	inv := func(s Slot, r ref, at string) string {
		eff := And(s.Present, Or(Not(s.HasExp), lt(at, s.Exp)))
		open := And(r.act, lt(at, r.end))
		return And(Eq(eff, open), Implies(eff, And(s.HasExp, Eq(s.Exp, r.end), le(sub(r.end, at), "1048576"), Eq(s.Val.E, r.cnt), le("1", r.cnt))))
	}
	for j := 0; j < 2; j++ {
		t := fmt.Sprintf("pre%d_", j)
		m.Slots[j] = Slot{Present: b.Var(t+"present", "Bool"), Val: intNum(b.Var(t+"val", "Int")), HasExp: b.Var(t+"hasexp", "Bool"), Exp: b.Var(t+"exp", "Int")}
		refs[j] = ref{b.Var(t+"ref_active", "Bool"), b.Var(t+"ref_end", "Int"), b.Var(t+"ref_count", "Int")}
		e.Inputs = append(e.Inputs, m.Slots[j].Present, m.Slots[j].Val.E, m.Slots[j].HasExp, m.Slots[j].Exp, refs[j].act, refs[j].end, refs[j].cnt)
		// the bound on the counter is a bound of the claim (windows with up to 2^40 takes), not part of the invariant
		e.Assume = append(e.Assume, inv(m.Slots[j], refs[j], c0), le(refs[j].cnt, "1099511627776"))
	}
	pre := []Slot{m.Slots[0], m.Slots[1]}
	rep, err := m.Run(chunk, c, []string{k}, []string{q, w}, T)
	if err != nil {
		return nil, err
	}
	cur := ref{
		act: BoolIte(Eq(k, "0"), refs[0].act, refs[1].act),
		end: b.Def("Int", Ite(Eq(k, "0"), refs[0].end, refs[1].end)),
		cnt: b.Def("Int", Ite(Eq(k, "0"), refs[0].cnt, refs[1].cnt)),
	}
	fresh := b.Def("Bool", Or(Not(cur.act), ge(c, cur.end)))
	ncnt := b.Def("Int", Ite(fresh, "1", add(cur.cnt, "1")))
	nend := b.Def("Int", Ite(fresh, add(c, w), cur.end))
	post := make([]ref, 2)
	var invPost []string
	for j := range refs {
		sel := Eq(k, IntLit(int64(j)))
		post[j] = ref{act: Or(sel, refs[j].act), end: b.Def("Int", Ite(sel, nend, refs[j].end)), cnt: b.Def("Int", Ite(sel, ncnt, refs[j].cnt))}
		invPost = append(invPost, inv(m.Slots[j], post[j], c))
	}
	want := Ite(lt(ncnt, q), "1", Ite(Eq(ncnt, q), "2", "0"))
	replyOutputs(b, "1", rep)
	e.Props = []Prop{
		{"inductive step: from any store state coupled to the reference by the invariant, the reply is the one the statement demands", And(rep.Int, Eq(rep.IntV, want)), "unsat"},
		{"inductive step: the invariant (expiry == window end, value == takes in the window, no key without expiry) is re-established", And(invPost...), "unsat"},
		{"inductive step: every encoded operation is inside the exactly-modelled fragment", Not(e.Undef()), "unsat"},
		{"witness: a take on a key whose counter exists and is below the quota", And(BoolIte(Eq(k, "0"), pre[0].Present, pre[1].Present), Not(fresh), "(= o_int_1 1)"), "sat"},
	}
	e.Bounds = fmt.Sprintf("one take from an arbitrary two-key store satisfying the invariant (counter value up to 2^40), quota in [1,%d], window argument in [1,2^20], clock in [0,2^32)", quotaMax)
	// prefer counterexamples that can be rebuilt with few takes
	e.Small = []string{le(refs[0].cnt, "8"), le(refs[1].cnt, "8")}
	e.Decode = func(md Model) *History {
		// rebuild the pre-state from the empty store: for each open
		// window, `count` takes at clock0 with window end-clock0; then the step.
		h := &History{Kind: "period", Quota: md.Int(q)}
		C0, C := md.Int(c0), md.Int(c)
		for j := 0; j < 2; j++ {
			act, end, cnt := md.Bool(refs[j].act), md.Int(refs[j].end), md.Int(refs[j].cnt)
			if !act || end <= C0 {
				continue
			}
			if cnt > 64 {
				return nil
			}
			for n := int64(0); n < cnt; n++ {
				h.Steps = append(h.Steps, Step{Dt: 0, Key: periodKeys[j], Window: end - C0})
			}
		}
		h.Steps = append(h.Steps, Step{Dt: C - C0, Key: periodKeys[md.Int(k)&1], Window: md.Int(w)})
		h.Note = "pre-state of the inductive step rebuilt from the empty store"
		RefPeriod(h)
		return h
	}
	return e, nil
}

// ===================================================================
// L08b: the token script
// ===================================================================

// EncodeToken encodes K requests AllowN(now_i, n_i) of one limiter from the
// empty store. rate/burst <= 0 means symbolic in [1,maxRB].
//
// Assumptions (all from the statement's quantifier): 2*burst >= rate; time
// supplied by the caller in whole seconds, non-decreasing; the server clock
// is non-decreasing and between two consecutive requests the caller's clock
// advances at least as much as the server's (same physical time; this is what
// makes key expiry after ttl server seconds invisible).
func EncodeToken(chunk []Stmt, K int, rate, burst, maxRB int64) (*Enc, error) {
	b := NewB()
	e := &Enc{Name: "token-bmc", Kind: "token", B: b}
	m := NewMachine(b, 2)
	e.Machines = []*Machine{m}
	var r, bu string
	if rate > 0 {
		r = IntLit(rate)
	} else {
		r = b.Var("rate", "Int")
		e.Assume = append(e.Assume, le("1", r), le(r, IntLit(maxRB)))
		e.Inputs = append(e.Inputs, r)
	}
	if burst > 0 {
		bu = IntLit(burst)
	} else {
		bu = b.Var("burst", "Int")
		e.Assume = append(e.Assume, le("1", bu), le(bu, IntLit(maxRB)))
		e.Inputs = append(e.Inputs, bu)
	}
	if rate <= 0 || burst <= 0 {
		e.Assume = append(e.Assume, ge("(* 2 "+bu+")", r))
	} else if 2*burst < rate {
		return nil, fmt.Errorf("configuration rate=%d burst=%d violates 2*burst >= rate", rate, burst)
	}

	lvl, ts := bu, "" // reference bucket: initially full
	var clocks, nows, ns, granted []string
	var okGrant, okInv, okExpiry, expiredGranted []string
	for i := 1; i <= K; i++ {
		c := b.Var(fmt.Sprintf("clock%d", i), "Int")
		now := b.Var(fmt.Sprintf("now%d", i), "Int")
		n := b.Var(fmt.Sprintf("n%d", i), "Int")
		e.Inputs = append(e.Inputs, c, now, n)
		e.Assume = append(e.Assume, le("0", c), lt(c, clockMax), le("0", now), lt(now, clockMax), le("1", n), le(n, add(bu, "1")))
		if i > 1 {
			pc, pn := clocks[i-2], nows[i-2]
			e.Assume = append(e.Assume, le(pc, c), le(pn, now), ge(sub(now, pn), sub(c, pc)))
		}
		clocks, nows, ns = append(clocks, c), append(nows, now), append(ns, n)

		// were the bucket keys gone (expired) when this request arrived?
		expired := F
		if i > 1 {
			s0 := m.Slots[0]
			expired = b.Def("Bool", Not(And(s0.Present, Or(Not(s0.HasExp), lt(c, s0.Exp)))))
		}
		b.Comment(fmt.Sprintf("---- request %d ----", i))
		rep, err := m.Run(chunk, c, []string{"0", "1"}, []string{r, bu, now, n}, T)
		if err != nil {
			return nil, err
		}
		// reference bucket (definitional): refill, cap, grant iff enough
		avail := bu
		if i > 1 {
			fill := b.Def("Int", add(lvl, "(* "+r+" "+sub(now, ts)+")"))
			avail = b.Def("Int", Ite(lt(fill, bu), fill, bu))
		}
		grant := b.Def("Bool", ge(avail, n))
		lvl = b.Def("Int", Ite(grant, sub(avail, n), avail))
		ts = now

		isGrant := b.Def("Bool", And(rep.Int, Eq(rep.IntV, "1")))
		granted = append(granted, isGrant)
		okGrant = append(okGrant, b.Def("Bool", And(Not(rep.Err), BoolIte(grant, isGrant, rep.Nil))))
		s0, s1 := m.Slots[0], m.Slots[1]
		okInv = append(okInv, b.Def("Bool", And(
			s0.Present, s0.HasExp, lt(c, s0.Exp), le("0", s0.Val.E), le(s0.Val.E, bu), Eq(s0.Val.E, lvl),
			s1.Present, s1.HasExp, lt(c, s1.Exp), Eq(s1.Val.E, now))))
		if i > 1 {
			okExpiry = append(okExpiry, b.Def("Bool", Implies(expired, Eq(avail, bu))))
			expiredGranted = append(expiredGranted, And(expired, isGrant))
		}
		kind, val := replyOutputs(b, fmt.Sprint(i), rep)
		tok := b.Named(fmt.Sprintf("tok_%d", i), "Int", Ite(s0.Present, s0.Val.E, "(- 1)"))
		ttl := b.Named(fmt.Sprintf("ttl_%d", i), "Int", slotTTL(s0, c))
		e.Outputs = append(e.Outputs, kind, val, tok, ttl)
	}
	// admitted between request i and request j <= burst + rate*(now_j-now_i)
	var okTotal []string
	for i := 0; i < K; i++ {
		sum := "0"
		for j := i; j < K; j++ {
			sum = b.Def("Int", add(sum, Ite(granted[j], ns[j], "0")))
			okTotal = append(okTotal, b.Def("Bool", le(sum, add(bu, "(* "+r+" "+sub(nows[j], nows[i])+")"))))
		}
	}
	e.Props = []Prop{
		{"a request for n is granted (reply 1) iff the reference bucket (capacity burst, initially full, rate tokens per whole caller second) holds n tokens, otherwise denied (nil reply); the script raises no error (setex TTL >= 1)", And(okGrant...), "unsat"},
		{"after every request both bucket keys exist with a positive TTL, 0 <= stored tokens <= burst, stored tokens == reference level, stored timestamp == now", And(okInv...), "unsat"},
		{"between request i and request j at most burst + rate*(now_j-now_i) tokens are admitted", And(okTotal...), "unsat"},
		{"expiry of the bucket keys never grants more than the refill would have (the reference bucket is full whenever the keys have expired)", And(okExpiry...), "unsat"},
		{"every encoded operation is inside the exactly-modelled fragment (integers below 2^53, rate != 0, floor of 2*capacity/rate exact)", Not(e.Undef()), "unsat"},
	}
	if K >= 3 {
		e.Props = append(e.Props,
			Prop{"witness: granted, denied, granted again after a refill", And(granted[0], Not(granted[1]), granted[2], lt(nows[1], nows[2])), "sat"},
			Prop{"witness: the bucket keys expire between two requests and the next request is granted", Or(expiredGranted...), "sat"},
		)
	}
	e.Bounds = fmt.Sprintf("%d requests from the empty store, n in [1,burst+1], now and server clock non-decreasing in [0,2^32) whole seconds, caller clock advancing at least as much as the server clock between requests", K)
	if rate > 0 && burst > 0 {
		e.Bounds += fmt.Sprintf(", rate=%d burst=%d", rate, burst)
	} else {
		e.Bounds += fmt.Sprintf(", rate/burst symbolic in [1,%d] with 2*burst >= rate", maxRB)
	}
	e.Decode = func(md Model) *History {
		h := &History{Kind: "token", Rate: rate, Burst: burst}
		if rate <= 0 {
			h.Rate = md.Int(r)
		}
		if burst <= 0 {
			h.Burst = md.Int(bu)
		}
		var last int64
		for i := 0; i < K; i++ {
			c := md.Int(clocks[i])
			dt := c - last
			if i == 0 {
				dt = 0
			}
			last = c
			h.Steps = append(h.Steps, Step{Dt: dt, Now: md.Int(nows[i]), N: md.Int(ns[i])})
		}
		RefToken(h)
		return h
	}
	e.Pin = func(h *History) []string {
		var out []string
		if rate <= 0 {
			out = append(out, Eq(r, IntLit(h.Rate)))
		}
		if burst <= 0 {
			out = append(out, Eq(bu, IntLit(h.Burst)))
		}
		var clock int64
		for i := 0; i < K; i++ {
			var s Step
			if i < len(h.Steps) {
				s = h.Steps[i]
			} else {
				s = h.Steps[len(h.Steps)-1]
				s.Dt = 0
			}
			clock += s.Dt
			out = append(out, Eq(clocks[i], IntLit(clock)), Eq(nows[i], IntLit(s.Now)), Eq(ns[i], IntLit(s.N)))
		}
		return out
	}
	e.Fill = func(h *History, md Model) {
		for i := range h.Steps {
			if i >= K {
				break
			}
			kind, v := md.Int(fmt.Sprintf("o_kind_%d", i+1)), md.Int(fmt.Sprintf("o_int_%d", i+1))
			h.Steps[i].ExpectGrant = kind == 0 && v == 1
			h.Steps[i].ExpectTokens = md.Int(fmt.Sprintf("o_tok_%d", i+1))
			h.Steps[i].ExpectTTL = md.Int(fmt.Sprintf("o_ttl_%d", i+1))
			if kind == 2 || kind == 3 {
				h.Steps[i].ExpectCode = -1 // script error / odd reply: the Go side falls back to the rescue limiter
			}
		}
		h.Oracle = "encoder"
	}
	return e, nil
}

// EncodeTokenStep is the one-step inductive form for the token script.
//
// Invariant at the instant c0 (server) / ts (caller) of the previous request:
//
//	either the limiter was never used (both keys absent, reference bucket full), or
//	both keys are present with the same expiry X, 1 <= X-c0, (X-c0)*rate >= burst
//	(so once they expire the refill alone has filled the bucket),
//	0 <= tokens <= burst, tokens == reference level, timestamp == reference ts, ts < 2^32.
func EncodeTokenStep(chunk []Stmt, rate, burst, maxRB int64) (*Enc, error) {
	b := NewB()
	e := &Enc{Name: "token-step", Kind: "token", B: b}
	m := NewMachine(b, 2)
	e.Machines = []*Machine{m}
	var r, bu string
	if rate > 0 {
		r = IntLit(rate)
	} else {
		r = b.Var("rate", "Int")
		e.Assume = append(e.Assume, le("1", r), le(r, IntLit(maxRB)))
		e.Inputs = append(e.Inputs, r)
	}
	if burst > 0 {
		bu = IntLit(burst)
	} else {
		bu = b.Var("burst", "Int")
		e.Assume = append(e.Assume, le("1", bu), le(bu, IntLit(maxRB)))
		e.Inputs = append(e.Inputs, bu)
	}
	if rate <= 0 || burst <= 0 {
		e.Assume = append(e.Assume, ge("(* 2 "+bu+")", r))
	}
	used := b.Var("pre_used", "Bool")
	tok0 := b.Var("pre_tokens", "Int")
	ts0 := b.Var("pre_ts", "Int")
	x0 := b.Var("pre_expiry", "Int")
	c0 := b.Var("clock0", "Int")
	c := b.Var("clock1", "Int")
	now := b.Var("now1", "Int")
	n := b.Var("n1", "Int")
	e.Inputs = append(e.Inputs, used, tok0, ts0, x0, c0, c, now, n)
	m.Slots[0] = Slot{Present: used, Val: intNum(tok0), HasExp: T, Exp: x0}
	m.Slots[1] = Slot{Present: used, Val: intNum(ts0), HasExp: T, Exp: x0}
	inv := func(s0, s1 Slot, lvl, ts, at string) string {
		return And(s0.Present, s1.Present, s0.HasExp, s1.HasExp, Eq(s0.Exp, s1.Exp), le("1", sub(s0.Exp, at)),
			ge("(* "+sub(s0.Exp, at)+" "+r+")", bu), le("0", s0.Val.E), le(s0.Val.E, bu), Eq(s0.Val.E, lvl), Eq(s1.Val.E, ts))
	}
	e.Assume = append(e.Assume,
		le("0", c0), le(c0, c), lt(c, clockMax), le("0", now), lt(now, clockMax), le("1", n), le(n, add(bu, "1")),
		Implies(used, And(inv(m.Slots[0], m.Slots[1], tok0, ts0, c0), le("0", ts0), le(ts0, now), ge(sub(now, ts0), sub(c, c0)))))
	expired := b.Def("Bool", And(used, ge(c, x0)))
	rep, err := m.Run(chunk, c, []string{"0", "1"}, []string{r, bu, now, n}, T)
	if err != nil {
		return nil, err
	}
	fill := b.Def("Int", add(tok0, "(* "+r+" "+sub(now, ts0)+")"))
	avail := b.Def("Int", Ite(used, Ite(lt(fill, bu), fill, bu), bu))
	grant := b.Def("Bool", ge(avail, n))
	lvl := b.Def("Int", Ite(grant, sub(avail, n), avail))
	isGrant := And(rep.Int, Eq(rep.IntV, "1"))
	replyOutputs(b, "1", rep)
	e.Props = []Prop{
		{"inductive step: from any bucket state satisfying the invariant, grant (reply 1) iff the reference bucket holds n tokens, otherwise nil reply, no script error", And(Not(rep.Err), BoolIte(grant, isGrant, rep.Nil)), "unsat"},
		{"inductive step: the invariant (both keys present with equal positive TTL covering a full refill, 0 <= tokens <= burst, tokens == reference level, timestamp == now) is re-established", inv(m.Slots[0], m.Slots[1], lvl, now, c), "unsat"},
		{"inductive step: when the keys have expired the reference bucket is full (expiry is unobservable)", Implies(expired, Eq(avail, bu)), "unsat"},
		{"inductive step: every encoded operation is inside the exactly-modelled fragment", Not(e.Undef()), "unsat"},
		{"witness: the keys have expired and the request is granted", And(expired, isGrant), "sat"},
		{"witness: a request is denied from a partially filled bucket", And(used, Not(expired), rep.Nil, lt("0", tok0)), "sat"},
	}
	e.Bounds = "one request from an arbitrary bucket state satisfying the invariant, n in [1,burst+1], now/clock in [0,2^32)"
	if rate > 0 && burst > 0 {
		e.Bounds += fmt.Sprintf(", rate=%d burst=%d", rate, burst)
	} else {
		e.Bounds += fmt.Sprintf(", rate/burst symbolic in [1,%d] with 2*burst >= rate", maxRB)
	}
	e.Decode = func(md Model) *History {
		h := &History{Kind: "token", Rate: rate, Burst: burst}
		if rate <= 0 {
			h.Rate = md.Int(r)
		}
		if burst <= 0 {
			h.Burst = md.Int(bu)
		}
		if md.Bool(used) {
			// reach (tokens, ts) from the empty store with one request at ts
			n0 := h.Burst - md.Int(tok0)
			if n0 <= 0 {
				n0 = h.Burst + 1 // denied: the level stays at burst
			}
			h.Steps = append(h.Steps, Step{Dt: 0, Now: md.Int(ts0), N: n0})
			h.Note = "pre-state of the inductive step rebuilt from the empty store by one request"
		}
		h.Steps = append(h.Steps, Step{Dt: md.Int(c) - md.Int(c0), Now: md.Int(now), N: md.Int(n)})
		RefToken(h)
		return h
	}
	return e, nil
}
