package lua

import (
	"fmt"
	"go/ast"
	goparser "go/parser"
	gotoken "go/token"
	"os"
	"path/filepath"
	"strconv"
	"strings"
)

// ExtractConst returns the value of the string constant `name` declared at
// package level in the (non-test) Go files of dir. The files are parsed from
// disk on every call, so an edit to the script inside the Go source changes
// what is encoded. Handled initialisers: string literals (raw or
// interpreted), `+` concatenations, parentheses and references to other
// string constants of the same package.
func ExtractConst(dir, name string) (string, string, error) {
	fset := gotoken.NewFileSet()
	ents, err := os.ReadDir(dir)
	if err != nil {
		return "", "", err
	}
	consts := map[string]ast.Expr{}
	where := map[string]string{}
	for _, e := range ents {
		n := e.Name()
		if e.IsDir() || !strings.HasSuffix(n, ".go") || strings.HasSuffix(n, "_test.go") || strings.HasPrefix(n, "zz_verif_") {
			continue
		}
		f, err := goparser.ParseFile(fset, filepath.Join(dir, n), nil, 0)
		if err != nil {
			return "", "", err
		}
		for _, d := range f.Decls {
			gd, ok := d.(*ast.GenDecl)
			if !ok || gd.Tok != gotoken.CONST {
				continue
			}
			for _, sp := range gd.Specs {
				vs := sp.(*ast.ValueSpec)
				for i, id := range vs.Names {
					if i < len(vs.Values) {
						consts[id.Name] = vs.Values[i]
						where[id.Name] = fmt.Sprintf("%s:%d", filepath.Join(dir, n), fset.Position(id.Pos()).Line)
					}
				}
			}
		}
	}
	e, ok := consts[name]
	if !ok {
		return "", "", fmt.Errorf("constant %s not found in %s", name, dir)
	}
	var eval func(e ast.Expr, depth int) (string, error)
	eval = func(e ast.Expr, depth int) (string, error) {
		if depth > 16 {
			return "", fmt.Errorf("constant %s: initialiser too deep", name)
		}
		switch x := e.(type) {
		case *ast.BasicLit:
			if x.Kind != gotoken.STRING {
				return "", fmt.Errorf("constant %s: non-string literal", name)
			}
			return strconv.Unquote(x.Value)
		case *ast.ParenExpr:
			return eval(x.X, depth+1)
		case *ast.BinaryExpr:
			if x.Op != gotoken.ADD {
				return "", fmt.Errorf("constant %s: operator %s", name, x.Op)
			}
			l, err := eval(x.X, depth+1)
			if err != nil {
				return "", err
			}
			r, err := eval(x.Y, depth+1)
			if err != nil {
				return "", err
			}
			return l + r, nil
		case *ast.Ident:
			if o, ok := consts[x.Name]; ok {
				return eval(o, depth+1)
			}
			return "", fmt.Errorf("constant %s: reference to %s", name, x.Name)
		}
		return "", fmt.Errorf("constant %s: initialiser %T not handled", name, e)
	}
	s, err := eval(e, 0)
	return s, where[name], err
}
