package lua

import (
	"fmt"
	"math/big"
	"strings"
)

// Number semantics.
//
// Lua (5.1, as embedded in Redis and as implemented by gopher-lua in
// miniredis) has one number type, the IEEE double. The encoder uses
// mathematical Int/Real instead; this is faithful, not an abstraction, because
// every operation is only encoded in a situation where the double result is
// the exact mathematical result:
//
//   - All inputs (ARGV, stored values) are integers. Every `+ - *`, max, min
//     on integers is encoded over SMT Int and comes with the side condition
//     |result| < 2^53 (collected in Machine.Undef and discharged by the solver
//     as the "modelled" obligation under the stated input bounds rate, burst,
//     n < 2^20, now < 2^32: the largest intermediate of the token script is
//     delta*rate < 2^32*2^20 = 2^52, so all results are integers below 2^53 and
//     exact in a double).
//   - The single inexact operation is a division a/b of two integers (token
//     script: capacity/rate). Its result q = fl(a/b) has relative error <= 2^-53.
//     The encoder only allows such a value to be multiplied by a power of two
//     2^k (exact in binary floating point) and then passed to math.floor. Then
//     floor(q*2^k) = floor(a*2^k/b) provided |a|*2^k < 2^53 and 0 < |b| < 2^53:
//     either a*2^k/b is an integer m (then a/b = m/2^k is a dyadic rational with
//     |m| < 2^53, representable, so q is exact), or a*2^k/b is at distance
//     >= 1/|b| from the nearest integer while |q*2^k - a*2^k/b| <= 2^-53*|a|*2^k/|b|
//     < 1/|b|, so no integer lies between the two. (For the token script:
//     floor(2*fl(c/r)) = floor(2c/r) because 2c < 2^21.) The side condition is
//     part of Machine.Undef. Encoded as (to_int (* (/ a b) 2^k)) over Real.
//   - Any other use of a division result (comparison, storing, returning,
//     adding) is NOT encoded: it is listed in Machine.Outside and the check is
//     INCONCLUSIVE.
//   - Number -> string -> number round trips through Redis (SETEX value, GET +
//     tonumber) use "%.14g" in Redis; integers below 10^14 survive unchanged,
//     and only integers are stored (anything else is listed in Outside).
//
// Outside these bounds nothing is claimed.

type NumKind int

const (
	NInt   NumKind = iota // exact integer, SMT sort Int
	NRatio                // (RNum/RDen)*2^Scale, SMT sort Real, only floor/*2^k may consume it
	NTaint                // Real whose floating-point rounding is not modelled
)

type Num struct {
	E          string
	Kind       NumKind
	RNum, RDen string
	Scale      int
}

func intNum(e string) Num { return Num{E: e, Kind: NInt} }

func (n Num) Real() string {
	if n.Kind == NInt {
		if v, ok := intLit(n.E); ok {
			if v.Sign() < 0 {
				return "(- " + new(big.Int).Neg(v).String() + ".0)"
			}
			return v.String() + ".0"
		}
		return "(to_real " + n.E + ")"
	}
	return n.E
}

func (n Num) sort() string {
	if n.Kind == NInt {
		return "Int"
	}
	return "Real"
}

// Val is a Lua value whose dynamic type may depend on the path: one optional
// alternative per type, each with a guard (SMT Bool); the guards partition
// `true`.
type Val struct {
	Nil   string
	Bool  string
	BoolV string
	Num   string
	NumV  Num
	NStr  string // string holding a number (ARGV[i], GET result)
	NStrV Num
	Key   string // KEYS[i]
	KeyV  string // SMT Int: slot index
	Str   string // constant string
	StrV  string
	Opq   string // status reply etc.: only discarding it is supported
}

func emptyVal() Val {
	return Val{Nil: F, Bool: F, BoolV: F, Num: F, NumV: intNum("0"), NStr: F, NStrV: intNum("0"), Key: F, KeyV: "0", Str: F, Opq: F}
}
func nilVal() Val          { v := emptyVal(); v.Nil = T; return v }
func boolVal(b string) Val { v := emptyVal(); v.Bool = T; v.BoolV = b; return v }
func numVal(n Num) Val     { v := emptyVal(); v.Num = T; v.NumV = n; return v }
func nstrVal(n Num) Val    { v := emptyVal(); v.NStr = T; v.NStrV = n; return v }
func keyVal(k string) Val  { v := emptyVal(); v.Key = T; v.KeyV = k; return v }
func strVal(s string) Val  { v := emptyVal(); v.Str = T; v.StrV = s; return v }
func opaqueVal() Val       { v := emptyVal(); v.Opq = T; return v }
func truthy(v Val) string  { return Not(Or(v.Nil, And(v.Bool, Not(v.BoolV)))) }
func pow2(k int) *big.Int  { return new(big.Int).Lsh(big.NewInt(1), uint(k)) }
func lit53() string        { return pow2(53).String() }
func absLess(e, bound string) string {
	return And("(< "+e+" "+bound+")", "(> "+e+" (- "+bound+"))")
}

type Slot struct {
	Present string
	Val     Num
	HasExp  string
	Exp     string
}

// Machine is the Redis model plus the evaluator state shared by all script
// invocations of one history.
type Machine struct {
	B       *B
	Slots   []Slot
	Clock   string
	Undef   string   // reached an operation outside the exactly-modelled fragment (x/0, |int| >= 2^53, ...)
	Outside []string // constructs that are not encoded at all => INCONCLUSIVE
	// counters for the evidence
	Invocations int
	Branches    int
	Commands    int
}

func NewMachine(b *B, slots int) *Machine {
	m := &Machine{B: b, Undef: F}
	for i := 0; i < slots; i++ {
		m.Slots = append(m.Slots, Slot{Present: F, Val: intNum("0"), HasExp: F, Exp: "0"})
	}
	return m
}

func (m *Machine) outside(line int, f string, a ...interface{}) {
	s := fmt.Sprintf("line %d: ", line) + fmt.Sprintf(f, a...)
	for _, o := range m.Outside {
		if o == s {
			return
		}
	}
	m.Outside = append(m.Outside, s)
}

type Reply struct {
	Err  string // the script raised an error (Go sees a non-Nil error)
	Nil  string // nil/false => go-redis returns redis.Nil
	Int  string // integer reply (numbers are truncated, true => 1)
	IntV string
	Str  string // bulk/status string reply
}

type frame struct {
	m      *Machine
	scopes []map[string]*Val
	live   string
	err    string
	ret    Val
	keys   []string
	argv   []string
}

func (fr *frame) eff(g string) string { return And(g, fr.live) }

func (fr *frame) raise(g, cond string) {
	c := And(g, fr.live, cond)
	if c == F {
		return
	}
	c = fr.m.B.Def("Bool", c)
	fr.err = fr.m.B.Def("Bool", Or(fr.err, c))
	fr.live = fr.m.B.Def("Bool", And(fr.live, Not(c)))
}

func (fr *frame) undef(g, cond string) {
	c := And(g, fr.live, cond)
	if c == F {
		return
	}
	fr.m.Undef = fr.m.B.Def("Bool", Or(fr.m.Undef, c))
}

func (fr *frame) lookup(name string) *Val {
	for i := len(fr.scopes) - 1; i >= 0; i-- {
		if v, ok := fr.scopes[i][name]; ok {
			return v
		}
	}
	return nil
}

func (fr *frame) assign(name string, v Val) bool {
	for i := len(fr.scopes) - 1; i >= 0; i-- {
		if _, ok := fr.scopes[i][name]; ok {
			fr.scopes[i][name] = &v
			return true
		}
	}
	return false
}

// ---- merging ----

func (m *Machine) numIte(c string, a, b Num) Num {
	switch {
	case c == T:
		return a
	case c == F:
		return b
	case a.Kind == NInt && b.Kind == NInt:
		return intNum(m.B.Def("Int", Ite(c, a.E, b.E)))
	case a == b:
		return a
	}
	return Num{E: m.B.Def("Real", Ite(c, a.Real(), b.Real())), Kind: NTaint}
}

func (m *Machine) mergeVal(c string, a, b Val) (Val, error) {
	if c == T {
		return a, nil
	}
	if c == F {
		return b, nil
	}
	d := func(e string) string { return m.B.Def("Bool", e) }
	g := func(x, y string) string { return d(BoolIte(c, x, y)) }
	pick := func(ga, gb string) string { // which payload is relevant
		switch {
		case ga == F:
			return F
		case gb == F:
			return T
		}
		return c
	}
	r := emptyVal()
	r.Nil = g(a.Nil, b.Nil)
	r.Bool = g(a.Bool, b.Bool)
	r.BoolV = d(BoolIte(pick(a.Bool, b.Bool), a.BoolV, b.BoolV))
	r.Num = g(a.Num, b.Num)
	r.NumV = m.numIte(pick(a.Num, b.Num), a.NumV, b.NumV)
	r.NStr = g(a.NStr, b.NStr)
	r.NStrV = m.numIte(pick(a.NStr, b.NStr), a.NStrV, b.NStrV)
	r.Key = g(a.Key, b.Key)
	r.KeyV = m.B.Def("Int", Ite(pick(a.Key, b.Key), a.KeyV, b.KeyV))
	r.Str = g(a.Str, b.Str)
	switch {
	case a.Str != F && b.Str != F && a.StrV != b.StrV:
		return r, unsupported(0, "a variable holds two different string constants depending on the path")
	case a.Str != F:
		r.StrV = a.StrV
	default:
		r.StrV = b.StrV
	}
	r.Opq = g(a.Opq, b.Opq)
	return r, nil
}

func (m *Machine) mergeSlot(c string, a, b Slot) Slot {
	if c == T {
		return a
	}
	if c == F {
		return b
	}
	return Slot{
		Present: m.B.Def("Bool", BoolIte(c, a.Present, b.Present)),
		Val:     m.numIte(c, a.Val, b.Val),
		HasExp:  m.B.Def("Bool", BoolIte(c, a.HasExp, b.HasExp)),
		Exp:     m.B.Def("Int", Ite(c, a.Exp, b.Exp)),
	}
}

func (m *Machine) readSlot(key string) Slot {
	if v, ok := intLit(key); ok && v.IsInt64() && v.Int64() >= 0 && int(v.Int64()) < len(m.Slots) {
		return m.Slots[v.Int64()]
	}
	acc := m.Slots[len(m.Slots)-1]
	for j := len(m.Slots) - 2; j >= 0; j-- {
		acc = m.mergeSlot(Eq(key, IntLit(int64(j))), m.Slots[j], acc)
	}
	return acc
}

func (m *Machine) writeSlot(key, g string, s Slot) {
	for j := range m.Slots {
		c := And(g, Eq(key, IntLit(int64(j))))
		if c == F {
			continue
		}
		m.Slots[j] = m.mergeSlot(m.B.Def("Bool", c), s, m.Slots[j])
	}
}

// ---- running a script ----

// Run symbolically executes the chunk once at server time `clock` with the
// given KEYS (slot indices, SMT Int) and ARGV (integers rendered as decimal
// strings by the caller, SMT Int). All effects are conditioned on `guard`.
func (m *Machine) Run(chunk []Stmt, clock string, keys, argv []string, guard string) (Reply, error) {
	m.Invocations++
	m.Clock = clock
	// lazy expiry: a key whose expiry instant is <= clock is absent
	for j := range m.Slots {
		s := m.Slots[j]
		if s.Present == F {
			continue
		}
		m.Slots[j].Present = m.B.Def("Bool", And(s.Present, Or(Not(s.HasExp), "(> "+s.Exp+" "+clock+")")))
	}
	fr := &frame{m: m, live: guard, err: F, ret: nilVal(), keys: keys, argv: argv}
	fr.scopes = []map[string]*Val{{}}
	if err := fr.block(chunk, T, false); err != nil {
		return Reply{}, err
	}
	r := fr.ret
	ok := Not(fr.err)
	rep := Reply{Err: fr.err}
	rep.Nil = m.B.Def("Bool", And(ok, Or(r.Nil, And(r.Bool, Not(r.BoolV)))))
	rep.Int = m.B.Def("Bool", And(ok, Or(r.Num, And(r.Bool, r.BoolV))))
	rep.Str = m.B.Def("Bool", And(ok, Or(r.NStr, r.Str, r.Opq, r.Key)))
	iv := "1"
	if r.Num != F {
		if r.NumV.Kind != NInt {
			m.outside(0, "a non-integer number is returned to Redis (truncation of a rounded double is not modelled)")
		} else {
			iv = Ite(r.Num, r.NumV.E, "1")
		}
	}
	rep.IntV = m.B.Def("Int", iv)
	return rep, nil
}

func (fr *frame) block(stmts []Stmt, g string, newScope bool) error {
	if newScope {
		fr.scopes = append(fr.scopes, map[string]*Val{})
		defer func() { fr.scopes = fr.scopes[:len(fr.scopes)-1] }()
	}
	for _, s := range stmts {
		if err := fr.stmt(s, g); err != nil {
			return err
		}
	}
	return nil
}

func (fr *frame) stmt(s Stmt, g string) error {
	m := fr.m
	switch s := s.(type) {
	case *SLocal:
		vals := make([]Val, len(s.Names))
		for i := range s.Names {
			if i < len(s.Exprs) {
				v, err := fr.eval(s.Exprs[i], g)
				if err != nil {
					return err
				}
				vals[i] = v
			} else {
				vals[i] = nilVal()
			}
		}
		for i, n := range s.Names {
			v := vals[i]
			fr.scopes[len(fr.scopes)-1][n] = &v
		}
	case *SAssign:
		old := fr.lookup(s.Name)
		if old == nil {
			return unsupported(s.Line, "assignment to global variable %s (Redis forbids globals)", s.Name)
		}
		v, err := fr.eval(s.E, g)
		if err != nil {
			return err
		}
		nv, err := m.mergeVal(m.B.Def("Bool", fr.eff(g)), v, *old)
		if err != nil {
			return err
		}
		fr.assign(s.Name, nv)
	case *SIf:
		rest := g
		for i, c := range s.Conds {
			cv, err := fr.eval(c, rest)
			if err != nil {
				return err
			}
			if cv.Opq != F || cv.Key != F {
				return unsupported(s.Line, "condition on a status reply or key")
			}
			t := m.B.Def("Bool", truthy(cv))
			if t != T && t != F {
				m.Branches++
			}
			if err := fr.block(s.Blocks[i], m.B.Def("Bool", And(rest, t)), true); err != nil {
				return err
			}
			rest = m.B.Def("Bool", And(rest, Not(t)))
		}
		if s.Else != nil {
			if err := fr.block(s.Else, rest, true); err != nil {
				return err
			}
		}
	case *SReturn:
		v := nilVal()
		if s.E != nil {
			var err error
			v, err = fr.eval(s.E, g)
			if err != nil {
				return err
			}
		}
		eg := m.B.Def("Bool", fr.eff(g))
		nv, err := m.mergeVal(eg, v, fr.ret)
		if err != nil {
			return err
		}
		fr.ret = nv
		fr.live = m.B.Def("Bool", And(fr.live, Not(eg)))
	case *SExpr:
		if _, err := fr.eval(s.E, g); err != nil {
			return err
		}
	case *SDo:
		return fr.block(s.Body, g, true)
	default:
		return unsupported(s.stmtLine(), "statement %T", s)
	}
	return nil
}

// toNum coerces to a number (numeric strings are coerced as Lua does in
// arithmetic); other types raise a Lua error.
func (fr *frame) toNum(v Val, g string) Num {
	fr.raise(g, Or(v.Nil, v.Bool, v.Key, v.Str, v.Opq))
	switch {
	case v.Num != F && v.NStr != F:
		return fr.m.numIte(v.Num, v.NumV, v.NStrV)
	case v.Num != F:
		return v.NumV
	case v.NStr != F:
		return v.NStrV
	}
	return intNum("0")
}

// strictNum: the value must be a number (not a numeric string), as needed
// by comparisons; other types raise a Lua error.
func (fr *frame) strictNum(v Val, g string, line int) Num {
	if v.NStr != F {
		fr.m.outside(line, "ordering comparison involving a string")
	}
	fr.raise(g, Or(v.Nil, v.Bool, v.Key, v.Str, v.Opq, v.NStr))
	if v.Num != F {
		return v.NumV
	}
	return intNum("0")
}

func (fr *frame) arith(op string, a, b Num, g string, line int) Num {
	m := fr.m
	if a.Kind == NInt && b.Kind == NInt {
		la, oka := intLit(a.E)
		lb, okb := intLit(b.E)
		if oka && okb {
			r := new(big.Int)
			switch op {
			case "+":
				r.Add(la, lb)
			case "-":
				r.Sub(la, lb)
			case "*":
				r.Mul(la, lb)
			}
			return intNum(bigLit(r))
		}
		e := m.B.Def("Int", "("+op+" "+a.E+" "+b.E+")")
		fr.undef(g, Not(absLess(e, lit53())))
		return intNum(e)
	}
	if op == "*" {
		// ratio * 2^k stays an exactly-tracked ratio
		r, c := a, b
		if r.Kind != NRatio {
			r, c = b, a
		}
		if r.Kind == NRatio && c.Kind == NInt {
			if v, ok := intLit(c.E); ok && v.Sign() > 0 && v.BitLen() <= 32 && new(big.Int).And(v, new(big.Int).Sub(v, big.NewInt(1))).Sign() == 0 {
				k := v.BitLen() - 1
				return Num{E: m.B.Def("Real", "(* "+r.E+" "+v.String()+".0)"), Kind: NRatio, RNum: r.RNum, RDen: r.RDen, Scale: r.Scale + k}
			}
		}
	}
	m.outside(line, "arithmetic %q on a division result / non-integer (floating-point rounding not modelled)", op)
	return Num{E: m.B.Def("Real", "("+op+" "+a.Real()+" "+b.Real()+")"), Kind: NTaint}
}

func (fr *frame) div(a, b Num, g string, line int) Num {
	m := fr.m
	if a.Kind != NInt || b.Kind != NInt {
		m.outside(line, "division with a non-integer operand (floating-point rounding not modelled)")
		fr.undef(g, Eq(b.Real(), "0.0"))
		return Num{E: m.B.Def("Real", "(/ "+a.Real()+" "+b.Real()+")"), Kind: NTaint}
	}
	fr.undef(g, Eq(b.E, "0")) // inf/nan are not modelled
	return Num{E: m.B.Def("Real", "(/ "+a.Real()+" "+b.Real()+")"), Kind: NRatio, RNum: a.E, RDen: b.E, Scale: 0}
}

func (fr *frame) floor(x Num, g string, line int) Num {
	m := fr.m
	switch x.Kind {
	case NInt:
		return x
	case NRatio:
		// floor(fl(a/b)*2^k) = floor(a*2^k/b) needs |a|*2^k < 2^53 (see the top of this file)
		bound := new(big.Int).Rsh(pow2(53), uint(x.Scale)).String()
		fr.undef(g, Not(And(absLess(x.RNum, bound), absLess(x.RDen, lit53()))))
		return intNum(m.B.Def("Int", "(to_int "+x.E+")"))
	}
	m.outside(line, "math.floor of a value whose floating-point rounding is not modelled")
	return intNum(m.B.Def("Int", "(to_int "+x.E+")"))
}

func parseNumLit(lit string) Num {
	if !strings.Contains(lit, ".") {
		v, _ := new(big.Int).SetString(lit, 10)
		return intNum(v.String())
	}
	parts := strings.SplitN(lit, ".", 2)
	ip, fp := parts[0], strings.TrimRight(parts[1], "0")
	if ip == "" {
		ip = "0"
	}
	if fp == "" {
		v, _ := new(big.Int).SetString(ip, 10)
		return intNum(v.String())
	}
	return Num{E: ip + "." + fp, Kind: NTaint}
}

func (fr *frame) eval(e Expr, g string) (Val, error) {
	m := fr.m
	switch e := e.(type) {
	case *ENum:
		return numVal(parseNumLit(e.Lit)), nil
	case *EStr:
		return strVal(e.S), nil
	case *ENil:
		return nilVal(), nil
	case *EBool:
		if e.V {
			return boolVal(T), nil
		}
		return boolVal(F), nil
	case *EName:
		if v := fr.lookup(e.Name); v != nil {
			return *v, nil
		}
		return Val{}, unsupported(e.Line, "global or library name %s used as a value", e.Name)
	case *EIndex:
		idx, ok := e.Idx.(*ENum)
		if !ok || strings.Contains(idx.Lit, ".") {
			return Val{}, unsupported(e.Line, "%s index is not an integer literal", e.Table)
		}
		var i int
		fmt.Sscan(idx.Lit, &i)
		if e.Table == "KEYS" {
			if i < 1 || i > len(fr.keys) {
				return Val{}, unsupported(e.Line, "KEYS[%d] is outside the %d keys the caller passes", i, len(fr.keys))
			}
			return keyVal(fr.keys[i-1]), nil
		}
		if i < 1 || i > len(fr.argv) {
			return Val{}, unsupported(e.Line, "ARGV[%d] is outside the %d arguments the caller passes", i, len(fr.argv))
		}
		return nstrVal(intNum(fr.argv[i-1])), nil
	case *EUn:
		v, err := fr.eval(e.E, g)
		if err != nil {
			return Val{}, err
		}
		if e.Op == "not" {
			return boolVal(m.B.Def("Bool", Not(truthy(v)))), nil
		}
		n := fr.toNum(v, g)
		return numVal(fr.arith("-", intNum("0"), n, g, e.Line)), nil
	case *EBin:
		return fr.evalBin(e, g)
	case *ECall:
		return fr.evalCall(e, g)
	}
	return Val{}, unsupported(e.exprLine(), "expression %T", e)
}

func (fr *frame) evalBin(e *EBin, g string) (Val, error) {
	m := fr.m
	l, err := fr.eval(e.L, g)
	if err != nil {
		return Val{}, err
	}
	switch e.Op {
	case "and", "or":
		t := m.B.Def("Bool", truthy(l))
		if t != T && t != F {
			m.Branches++
		}
		rg := And(g, t)
		if e.Op == "or" {
			rg = And(g, Not(t))
		}
		r, err := fr.eval(e.R, m.B.Def("Bool", rg))
		if err != nil {
			return Val{}, err
		}
		if e.Op == "and" {
			return m.mergeVal(t, r, l)
		}
		return m.mergeVal(t, l, r)
	}
	r, err := fr.eval(e.R, g)
	if err != nil {
		return Val{}, err
	}
	switch e.Op {
	case "+", "-", "*":
		a := fr.toNum(l, g)
		b := fr.toNum(r, g)
		return numVal(fr.arith(e.Op, a, b, g, e.Line)), nil
	case "/":
		a := fr.toNum(l, g)
		b := fr.toNum(r, g)
		return numVal(fr.div(a, b, g, e.Line)), nil
	case "%":
		return Val{}, unsupported(e.Line, "operator %%")
	case "==", "~=":
		eq, err := fr.equal(l, r, e.Line)
		if err != nil {
			return Val{}, err
		}
		if e.Op == "~=" {
			eq = Not(eq)
		}
		return boolVal(m.B.Def("Bool", eq)), nil
	case "<", "<=", ">", ">=":
		a := fr.strictNum(l, g, e.Line)
		b := fr.strictNum(r, g, e.Line)
		if a.Kind != NInt || b.Kind != NInt {
			m.outside(e.Line, "comparison %q on a division result / non-integer (floating-point rounding not modelled)", e.Op)
			return boolVal(m.B.Def("Bool", "("+e.Op+" "+a.Real()+" "+b.Real()+")")), nil
		}
		return boolVal(m.B.Def("Bool", "("+e.Op+" "+a.E+" "+b.E+")")), nil
	}
	return Val{}, unsupported(e.Line, "operator %q", e.Op)
}

// equal implements Lua's raw equality: values of different types are different.
func (fr *frame) equal(a, b Val, line int) (string, error) {
	m := fr.m
	if (a.Opq != F && b.Opq != F) || (a.NStr != F && b.NStr != F) || (a.NStr != F && b.Str != F) || (a.Str != F && b.NStr != F) {
		return "", unsupported(line, "equality between strings / status replies")
	}
	var alts []string
	alts = append(alts, And(a.Nil, b.Nil))
	alts = append(alts, And(a.Bool, b.Bool, Eq(a.BoolV, b.BoolV)))
	if a.Num != F && b.Num != F {
		var eq string
		if a.NumV.Kind == NInt && b.NumV.Kind == NInt {
			eq = Eq(a.NumV.E, b.NumV.E)
		} else {
			m.outside(line, "equality on a division result / non-integer (floating-point rounding not modelled)")
			eq = Eq(a.NumV.Real(), b.NumV.Real())
		}
		alts = append(alts, And(a.Num, b.Num, eq))
	}
	alts = append(alts, And(a.Key, b.Key, Eq(a.KeyV, b.KeyV)))
	if a.Str != F && b.Str != F && a.StrV == b.StrV {
		alts = append(alts, And(a.Str, b.Str))
	}
	return Or(alts...), nil
}

func (fr *frame) evalArgs(args []Expr, g string) ([]Val, error) {
	out := make([]Val, len(args))
	for i, a := range args {
		v, err := fr.eval(a, g)
		if err != nil {
			return nil, err
		}
		out[i] = v
	}
	return out, nil
}

func (fr *frame) evalCall(e *ECall, g string) (Val, error) {
	m := fr.m
	switch e.Fn {
	case "tonumber":
		if len(e.Args) != 1 {
			return Val{}, unsupported(e.Line, "tonumber with %d arguments", len(e.Args))
		}
		v, err := fr.eval(e.Args[0], g)
		if err != nil {
			return Val{}, err
		}
		if v.Str != F || v.Key != F || v.Opq != F {
			return Val{}, unsupported(e.Line, "tonumber of a non-numeric string / key / status reply")
		}
		r := emptyVal()
		r.Nil = m.B.Def("Bool", Or(v.Nil, v.Bool)) // tonumber(false) == nil
		r.Num = m.B.Def("Bool", Or(v.Num, v.NStr))
		switch {
		case v.Num != F && v.NStr != F:
			r.NumV = m.numIte(v.Num, v.NumV, v.NStrV)
		case v.Num != F:
			r.NumV = v.NumV
		case v.NStr != F:
			r.NumV = v.NStrV
		}
		return r, nil
	case "math.max", "math.min":
		if len(e.Args) < 1 {
			return Val{}, unsupported(e.Line, "%s without arguments", e.Fn)
		}
		vs, err := fr.evalArgs(e.Args, g)
		if err != nil {
			return Val{}, err
		}
		acc := fr.toNum(vs[0], g)
		for _, v := range vs[1:] {
			n := fr.toNum(v, g)
			op := "<"
			if e.Fn == "math.max" {
				op = ">"
			}
			if acc.Kind != NInt || n.Kind != NInt {
				m.outside(e.Line, "%s on a division result / non-integer", e.Fn)
				acc = Num{E: m.B.Def("Real", Ite("("+op+" "+n.Real()+" "+acc.Real()+")", n.Real(), acc.Real())), Kind: NTaint}
				continue
			}
			acc = intNum(m.B.Def("Int", Ite("("+op+" "+n.E+" "+acc.E+")", n.E, acc.E)))
		}
		return numVal(acc), nil
	case "math.floor", "math.ceil", "math.abs":
		if len(e.Args) != 1 {
			return Val{}, unsupported(e.Line, "%s with %d arguments", e.Fn, len(e.Args))
		}
		v, err := fr.eval(e.Args[0], g)
		if err != nil {
			return Val{}, err
		}
		n := fr.toNum(v, g)
		switch e.Fn {
		case "math.floor":
			return numVal(fr.floor(n, g, e.Line)), nil
		case "math.abs":
			if n.Kind != NInt {
				m.outside(e.Line, "math.abs of a non-integer")
				return numVal(Num{E: m.B.Def("Real", "(abs "+n.E+")"), Kind: NTaint}), nil
			}
			return numVal(intNum(m.B.Def("Int", "(abs "+n.E+")"))), nil
		default:
			if n.Kind == NInt {
				return numVal(n), nil
			}
			return Val{}, unsupported(e.Line, "math.ceil of a non-integer")
		}
	case "redis.call":
		return fr.redisCall(e, g)
	}
	return Val{}, unsupported(e.Line, "call of %s", e.Fn)
}

func (fr *frame) keyArg(v Val, line int) (string, error) {
	if v.Key != T {
		return "", unsupported(line, "key argument of redis.call is not KEYS[i]")
	}
	return v.KeyV, nil
}

// intArg: an argument Redis parses as an integer (ttl, increment).
func (fr *frame) intArg(v Val, g string, line int, what string) Num {
	n := fr.toNum(v, g)
	if n.Kind != NInt {
		fr.m.outside(line, "%s of a redis command is not an exact integer", what)
		return intNum(fr.m.B.Def("Int", "(to_int "+n.E+")"))
	}
	return n
}

// storeArg: a value written to the store (numbers only; stored as decimal text).
func (fr *frame) storeArg(v Val, g string, line int) Num {
	if v.Str != F || v.Key != F || v.Opq != F {
		fr.m.outside(line, "a non-numeric string is stored")
	}
	n := fr.toNum(v, g)
	if n.Kind != NInt {
		fr.m.outside(line, "a non-integer number is stored (its decimal rendering is not modelled)")
		return n
	}
	return n
}

func (fr *frame) redisCall(e *ECall, g string) (Val, error) {
	m := fr.m
	if len(e.Args) < 1 {
		return Val{}, unsupported(e.Line, "redis.call without a command")
	}
	cmdLit, ok := e.Args[0].(*EStr)
	if !ok {
		return Val{}, unsupported(e.Line, "redis.call with a computed command name")
	}
	cmd := strings.ToLower(cmdLit.S)
	args, err := fr.evalArgs(e.Args[1:], g)
	if err != nil {
		return Val{}, err
	}
	need := func(n int) error {
		if len(args) != n {
			return unsupported(e.Line, "redis command %s with %d arguments (options are not modelled)", cmd, len(args))
		}
		return nil
	}
	m.Commands++
	clock := m.Clock
	switch cmd {
	case "get":
		if err := need(1); err != nil {
			return Val{}, err
		}
		k, err := fr.keyArg(args[0], e.Line)
		if err != nil {
			return Val{}, err
		}
		s := m.readSlot(k)
		r := emptyVal()
		r.Bool = m.B.Def("Bool", Not(s.Present)) // missing key => Lua false
		r.BoolV = F
		r.NStr = s.Present
		r.NStrV = s.Val
		return r, nil
	case "set":
		if err := need(2); err != nil {
			return Val{}, err
		}
		k, err := fr.keyArg(args[0], e.Line)
		if err != nil {
			return Val{}, err
		}
		v := fr.storeArg(args[1], g, e.Line)
		m.writeSlot(k, fr.eff(g), Slot{Present: T, Val: v, HasExp: F, Exp: "0"})
		return opaqueVal(), nil
	case "setex":
		if err := need(3); err != nil {
			return Val{}, err
		}
		k, err := fr.keyArg(args[0], e.Line)
		if err != nil {
			return Val{}, err
		}
		ttl := fr.intArg(args[1], g, e.Line, "ttl")
		v := fr.storeArg(args[2], g, e.Line)
		fr.raise(g, "(<= "+ttl.E+" 0)") // ERR invalid expire time in setex
		m.writeSlot(k, fr.eff(g), Slot{Present: T, Val: v, HasExp: T, Exp: m.B.Def("Int", "(+ "+clock+" "+ttl.E+")")})
		return opaqueVal(), nil
	case "incrby", "decrby", "incr", "decr":
		var d Num
		if cmd == "incr" || cmd == "decr" {
			if err := need(1); err != nil {
				return Val{}, err
			}
			d = intNum("1")
		} else {
			if err := need(2); err != nil {
				return Val{}, err
			}
			d = fr.intArg(args[1], g, e.Line, "increment")
		}
		k, err := fr.keyArg(args[0], e.Line)
		if err != nil {
			return Val{}, err
		}
		s := m.readSlot(k)
		if s.Val.Kind != NInt {
			m.outside(e.Line, "%s on a stored non-integer", cmd)
		}
		base := m.numIte(s.Present, s.Val, intNum("0"))
		op := "+"
		if strings.HasPrefix(cmd, "decr") {
			op = "-"
		}
		nv := fr.arith(op, base, d, g, e.Line)
		// a key created by INCRBY has no expiry; an existing one keeps its own
		m.writeSlot(k, fr.eff(g), Slot{Present: T, Val: nv, HasExp: m.B.Def("Bool", And(s.Present, s.HasExp)), Exp: s.Exp})
		return numVal(nv), nil
	case "expire":
		if err := need(2); err != nil {
			return Val{}, err
		}
		k, err := fr.keyArg(args[0], e.Line)
		if err != nil {
			return Val{}, err
		}
		ttl := fr.intArg(args[1], g, e.Line, "ttl")
		s := m.readSlot(k)
		// EXPIRE with a non-positive ttl deletes the key
		ns := Slot{Present: m.B.Def("Bool", "(> "+ttl.E+" 0)"), Val: s.Val, HasExp: T, Exp: m.B.Def("Int", "(+ "+clock+" "+ttl.E+")")}
		m.writeSlot(k, And(fr.eff(g), s.Present), ns)
		return numVal(intNum(m.B.Def("Int", Ite(s.Present, "1", "0")))), nil
	case "ttl":
		if err := need(1); err != nil {
			return Val{}, err
		}
		k, err := fr.keyArg(args[0], e.Line)
		if err != nil {
			return Val{}, err
		}
		s := m.readSlot(k)
		return numVal(intNum(m.B.Def("Int", Ite(Not(s.Present), "(- 2)", Ite(s.HasExp, "(- "+s.Exp+" "+clock+")", "(- 1)"))))), nil
	case "del", "exists":
		if err := need(1); err != nil {
			return Val{}, err
		}
		k, err := fr.keyArg(args[0], e.Line)
		if err != nil {
			return Val{}, err
		}
		s := m.readSlot(k)
		if cmd == "del" {
			m.writeSlot(k, fr.eff(g), Slot{Present: F, Val: intNum("0"), HasExp: F, Exp: "0"})
		}
		return numVal(intNum(m.B.Def("Int", Ite(s.Present, "1", "0")))), nil
	}
	return Val{}, unsupported(e.Line, "redis command %q", cmdLit.S)
}
