// Package lua is a small Lua-subset front end plus a symbolic evaluator that
// turns Redis scripts (the two scripts of /repo/lib/limit) into SMT-LIB2 text
// over Int/Real. Anything outside the subset is reported as an error
// (*Unsupported) and makes the check INCONCLUSIVE, never a pass.
package lua

import (
	"fmt"
	"strings"
)

// Unsupported is returned for every construct outside the handled subset.
type Unsupported struct {
	Line int
	Msg  string
}

func (u *Unsupported) Error() string {
	if u.Line > 0 {
		return fmt.Sprintf("lua subset: line %d: %s", u.Line, u.Msg)
	}
	return "lua subset: " + u.Msg
}

func unsupported(line int, f string, a ...interface{}) error {
	return &Unsupported{Line: line, Msg: fmt.Sprintf(f, a...)}
}

// ---------- lexer ----------

type tokKind int

const (
	tEOF tokKind = iota
	tName
	tNumber
	tString
	tSym // operators and punctuation
	tKeyword
)

type token struct {
	k    tokKind
	s    string
	line int
}

var keywords = map[string]bool{
	"and": true, "break": true, "do": true, "else": true, "elseif": true, "end": true,
	"false": true, "for": true, "function": true, "if": true, "in": true, "local": true,
	"nil": true, "not": true, "or": true, "repeat": true, "return": true, "then": true,
	"true": true, "until": true, "while": true, "goto": true,
}

func isNameStart(c byte) bool {
	return c == '_' || (c >= 'a' && c <= 'z') || (c >= 'A' && c <= 'Z')
}
func isDigit(c byte) bool { return c >= '0' && c <= '9' }

func lex(src string) ([]token, error) {
	var out []token
	line := 1
	i := 0
	for i < len(src) {
		c := src[i]
		switch {
		case c == '\n':
			line++
			i++
		case c == ' ' || c == '\t' || c == '\r':
			i++
		case c == '-' && i+1 < len(src) && src[i+1] == '-':
			if strings.HasPrefix(src[i:], "--[[") || strings.HasPrefix(src[i:], "--[=") {
				return nil, unsupported(line, "long comment")
			}
			for i < len(src) && src[i] != '\n' {
				i++
			}
		case isNameStart(c):
			j := i
			for j < len(src) && (isNameStart(src[j]) || isDigit(src[j])) {
				j++
			}
			w := src[i:j]
			if keywords[w] {
				out = append(out, token{tKeyword, w, line})
			} else {
				out = append(out, token{tName, w, line})
			}
			i = j
		case isDigit(c) || (c == '.' && i+1 < len(src) && isDigit(src[i+1])):
			j := i
			if c == '0' && j+1 < len(src) && (src[j+1] == 'x' || src[j+1] == 'X') {
				return nil, unsupported(line, "hexadecimal literal")
			}
			for j < len(src) && isDigit(src[j]) {
				j++
			}
			if j < len(src) && src[j] == '.' && !(j+1 < len(src) && src[j+1] == '.') {
				j++
				for j < len(src) && isDigit(src[j]) {
					j++
				}
			}
			if j < len(src) && (src[j] == 'e' || src[j] == 'E') {
				return nil, unsupported(line, "exponent literal")
			}
			if j < len(src) && isNameStart(src[j]) {
				return nil, unsupported(line, "malformed number")
			}
			out = append(out, token{tNumber, src[i:j], line})
			i = j
		case c == '"' || c == '\'':
			q := c
			j := i + 1
			var sb strings.Builder
			for {
				if j >= len(src) || src[j] == '\n' {
					return nil, unsupported(line, "unterminated string")
				}
				if src[j] == q {
					break
				}
				if src[j] == '\\' {
					if j+1 >= len(src) {
						return nil, unsupported(line, "bad escape")
					}
					switch src[j+1] {
					case 'n':
						sb.WriteByte('\n')
					case 't':
						sb.WriteByte('\t')
					case '\\', '"', '\'':
						sb.WriteByte(src[j+1])
					default:
						return nil, unsupported(line, "string escape \\%c", src[j+1])
					}
					j += 2
					continue
				}
				sb.WriteByte(src[j])
				j++
			}
			out = append(out, token{tString, sb.String(), line})
			i = j + 1
		case c == '[' && i+1 < len(src) && (src[i+1] == '[' || src[i+1] == '='):
			return nil, unsupported(line, "long string")
		default:
			three := ""
			if i+3 <= len(src) {
				three = src[i : i+3]
			}
			two := ""
			if i+2 <= len(src) {
				two = src[i : i+2]
			}
			switch {
			case three == "...":
				out = append(out, token{tSym, three, line})
				i += 3
			case two == "==" || two == "~=" || two == "<=" || two == ">=" || two == "..":
				out = append(out, token{tSym, two, line})
				i += 2
			case strings.ContainsRune("+-*/%^#<>=(){}[];:,.", rune(c)):
				out = append(out, token{tSym, string(c), line})
				i++
			default:
				return nil, unsupported(line, "unexpected character %q", c)
			}
		}
	}
	out = append(out, token{tEOF, "", line})
	return out, nil
}

// ---------- AST ----------

type Expr interface{ exprLine() int }

type (
	ENum struct {
		Lit  string
		Line int
	} // decimal literal
	EStr struct {
		S    string
		Line int
	}
	ENil  struct{ Line int }
	EBool struct {
		V    bool
		Line int
	}
	EName struct {
		Name string
		Line int
	}
	EIndex struct { // KEYS[i] / ARGV[i]
		Table string
		Idx   Expr
		Line  int
	}
	ECall struct { // tonumber(..), math.max(..), redis.call(..)
		Fn   string
		Args []Expr
		Line int
	}
	EBin struct {
		Op   string
		L, R Expr
		Line int
	}
	EUn struct {
		Op   string // "not", "-"
		E    Expr
		Line int
	}
)

func (e *ENum) exprLine() int   { return e.Line }
func (e *EStr) exprLine() int   { return e.Line }
func (e *ENil) exprLine() int   { return e.Line }
func (e *EBool) exprLine() int  { return e.Line }
func (e *EName) exprLine() int  { return e.Line }
func (e *EIndex) exprLine() int { return e.Line }
func (e *ECall) exprLine() int  { return e.Line }
func (e *EBin) exprLine() int   { return e.Line }
func (e *EUn) exprLine() int    { return e.Line }

type Stmt interface{ stmtLine() int }

type (
	SLocal struct {
		Names []string
		Exprs []Expr
		Line  int
	}
	SAssign struct {
		Name string
		E    Expr
		Line int
	}
	SIf struct {
		Conds  []Expr
		Blocks [][]Stmt
		Else   []Stmt // nil if absent
		Line   int
	}
	SReturn struct {
		E    Expr // nil: return without value
		Line int
	}
	SExpr struct { // call used as a statement
		E    *ECall
		Line int
	}
	SDo struct {
		Body []Stmt
		Line int
	}
)

func (s *SLocal) stmtLine() int  { return s.Line }
func (s *SAssign) stmtLine() int { return s.Line }
func (s *SIf) stmtLine() int     { return s.Line }
func (s *SReturn) stmtLine() int { return s.Line }
func (s *SExpr) stmtLine() int   { return s.Line }
func (s *SDo) stmtLine() int     { return s.Line }

// ---------- parser ----------

type parser struct {
	toks []token
	pos  int
}

func (p *parser) peek() token { return p.toks[p.pos] }
func (p *parser) next() token { t := p.toks[p.pos]; p.pos++; return t }
func (p *parser) isSym(s string) bool {
	t := p.peek()
	return t.k == tSym && t.s == s
}
func (p *parser) isKw(s string) bool {
	t := p.peek()
	return t.k == tKeyword && t.s == s
}
func (p *parser) expectSym(s string) error {
	if !p.isSym(s) {
		return unsupported(p.peek().line, "expected %q, found %q", s, p.peek().s)
	}
	p.pos++
	return nil
}
func (p *parser) expectKw(s string) error {
	if !p.isKw(s) {
		return unsupported(p.peek().line, "expected %q, found %q", s, p.peek().s)
	}
	p.pos++
	return nil
}

// Parse parses a chunk of the Lua subset.
func Parse(src string) ([]Stmt, error) {
	toks, err := lex(src)
	if err != nil {
		return nil, err
	}
	p := &parser{toks: toks}
	b, err := p.block()
	if err != nil {
		return nil, err
	}
	if p.peek().k != tEOF {
		return nil, unsupported(p.peek().line, "unexpected %q", p.peek().s)
	}
	return b, nil
}

func (p *parser) blockEnd() bool {
	t := p.peek()
	if t.k == tEOF {
		return true
	}
	if t.k == tKeyword {
		switch t.s {
		case "end", "else", "elseif", "until":
			return true
		}
	}
	return false
}

func (p *parser) block() ([]Stmt, error) {
	var out []Stmt
	for !p.blockEnd() {
		if p.isSym(";") {
			p.pos++
			continue
		}
		s, err := p.stmt()
		if err != nil {
			return nil, err
		}
		out = append(out, s)
		if _, ok := s.(*SReturn); ok {
			if p.isSym(";") {
				p.pos++
			}
			if !p.blockEnd() {
				return nil, unsupported(p.peek().line, "statement after return")
			}
		}
	}
	return out, nil
}

func (p *parser) stmt() (Stmt, error) {
	t := p.peek()
	if t.k == tKeyword {
		switch t.s {
		case "local":
			p.pos++
			if p.isKw("function") {
				return nil, unsupported(t.line, "local function")
			}
			var names []string
			for {
				n := p.next()
				if n.k != tName {
					return nil, unsupported(n.line, "expected name after local")
				}
				names = append(names, n.s)
				if p.isSym(",") {
					p.pos++
					continue
				}
				break
			}
			var exprs []Expr
			if p.isSym("=") {
				p.pos++
				for {
					e, err := p.expr(0)
					if err != nil {
						return nil, err
					}
					exprs = append(exprs, e)
					if p.isSym(",") {
						p.pos++
						continue
					}
					break
				}
			}
			if len(exprs) > len(names) {
				return nil, unsupported(t.line, "more values than names in local")
			}
			if len(exprs) < len(names) && len(exprs) > 0 {
				if _, isCall := exprs[len(exprs)-1].(*ECall); isCall {
					return nil, unsupported(t.line, "multiple assignment from a call")
				}
			}
			return &SLocal{Names: names, Exprs: exprs, Line: t.line}, nil
		case "if":
			p.pos++
			s := &SIf{Line: t.line}
			for {
				c, err := p.expr(0)
				if err != nil {
					return nil, err
				}
				if err := p.expectKw("then"); err != nil {
					return nil, err
				}
				b, err := p.block()
				if err != nil {
					return nil, err
				}
				s.Conds = append(s.Conds, c)
				s.Blocks = append(s.Blocks, b)
				if p.isKw("elseif") {
					p.pos++
					continue
				}
				break
			}
			if p.isKw("else") {
				p.pos++
				b, err := p.block()
				if err != nil {
					return nil, err
				}
				if b == nil {
					b = []Stmt{}
				}
				s.Else = b
			}
			if err := p.expectKw("end"); err != nil {
				return nil, err
			}
			return s, nil
		case "return":
			p.pos++
			s := &SReturn{Line: t.line}
			if p.blockEnd() || p.isSym(";") {
				return s, nil
			}
			e, err := p.expr(0)
			if err != nil {
				return nil, err
			}
			if p.isSym(",") {
				return nil, unsupported(t.line, "multiple return values")
			}
			s.E = e
			return s, nil
		case "do":
			p.pos++
			b, err := p.block()
			if err != nil {
				return nil, err
			}
			if err := p.expectKw("end"); err != nil {
				return nil, err
			}
			return &SDo{Body: b, Line: t.line}, nil
		default:
			return nil, unsupported(t.line, "statement %q", t.s)
		}
	}
	// assignment or call statement
	e, err := p.suffixed()
	if err != nil {
		return nil, err
	}
	if p.isSym("=") {
		n, ok := e.(*EName)
		if !ok {
			return nil, unsupported(t.line, "assignment to a non-variable")
		}
		p.pos++
		v, err := p.expr(0)
		if err != nil {
			return nil, err
		}
		if p.isSym(",") {
			return nil, unsupported(t.line, "multiple assignment")
		}
		return &SAssign{Name: n.Name, E: v, Line: t.line}, nil
	}
	if p.isSym(",") {
		return nil, unsupported(t.line, "multiple assignment")
	}
	c, ok := e.(*ECall)
	if !ok {
		return nil, unsupported(t.line, "expression used as a statement")
	}
	return &SExpr{E: c, Line: t.line}, nil
}

// binary operator precedences (Lua 5.1); right-assoc ones are unsupported.
var binPrec = map[string]int{
	"or": 1, "and": 2,
	"<": 3, ">": 3, "<=": 3, ">=": 3, "~=": 3, "==": 3,
	"..": 4,
	"+":  5, "-": 5,
	"*": 6, "/": 6, "%": 6,
	"^": 8,
}

const unaryPrec = 7

func (p *parser) binOp() (string, bool) {
	t := p.peek()
	if t.k == tSym {
		if _, ok := binPrec[t.s]; ok {
			return t.s, true
		}
	}
	if t.k == tKeyword && (t.s == "and" || t.s == "or") {
		return t.s, true
	}
	return "", false
}

func (p *parser) expr(limit int) (Expr, error) {
	var left Expr
	t := p.peek()
	if (t.k == tKeyword && t.s == "not") || (t.k == tSym && (t.s == "-" || t.s == "#")) {
		if t.s == "#" {
			return nil, unsupported(t.line, "length operator")
		}
		p.pos++
		e, err := p.expr(unaryPrec)
		if err != nil {
			return nil, err
		}
		left = &EUn{Op: t.s, E: e, Line: t.line}
	} else {
		e, err := p.simple()
		if err != nil {
			return nil, err
		}
		left = e
	}
	for {
		op, ok := p.binOp()
		if !ok {
			break
		}
		prec := binPrec[op]
		if prec <= limit {
			break
		}
		line := p.peek().line
		if op == ".." || op == "^" {
			return nil, unsupported(line, "operator %q", op)
		}
		p.pos++
		right, err := p.expr(prec)
		if err != nil {
			return nil, err
		}
		left = &EBin{Op: op, L: left, R: right, Line: line}
	}
	return left, nil
}

func (p *parser) simple() (Expr, error) {
	t := p.peek()
	switch t.k {
	case tNumber:
		p.pos++
		return &ENum{Lit: t.s, Line: t.line}, nil
	case tString:
		p.pos++
		return &EStr{S: t.s, Line: t.line}, nil
	case tKeyword:
		switch t.s {
		case "nil":
			p.pos++
			return &ENil{Line: t.line}, nil
		case "true", "false":
			p.pos++
			return &EBool{V: t.s == "true", Line: t.line}, nil
		case "function":
			return nil, unsupported(t.line, "function expression")
		}
		return nil, unsupported(t.line, "unexpected %q", t.s)
	case tSym:
		if t.s == "{" {
			return nil, unsupported(t.line, "table constructor")
		}
		if t.s == "..." {
			return nil, unsupported(t.line, "varargs")
		}
	}
	return p.suffixed()
}

// suffixed parses name, name.name(args), name[expr], (expr).
func (p *parser) suffixed() (Expr, error) {
	t := p.next()
	if t.k == tSym && t.s == "(" {
		e, err := p.expr(0)
		if err != nil {
			return nil, err
		}
		if err := p.expectSym(")"); err != nil {
			return nil, err
		}
		if p.isSym("(") || p.isSym("[") || p.isSym(".") || p.isSym(":") {
			return nil, unsupported(t.line, "suffix on a parenthesised expression")
		}
		return e, nil
	}
	if t.k != tName {
		return nil, unsupported(t.line, "unexpected %q", t.s)
	}
	name := t.s
	for p.isSym(".") {
		p.pos++
		n := p.next()
		if n.k != tName {
			return nil, unsupported(n.line, "expected field name")
		}
		name += "." + n.s
	}
	switch {
	case p.isSym("("):
		p.pos++
		var args []Expr
		if !p.isSym(")") {
			for {
				a, err := p.expr(0)
				if err != nil {
					return nil, err
				}
				args = append(args, a)
				if p.isSym(",") {
					p.pos++
					continue
				}
				break
			}
		}
		if err := p.expectSym(")"); err != nil {
			return nil, err
		}
		if p.isSym("(") || p.isSym("[") || p.isSym(".") || p.isSym(":") {
			return nil, unsupported(t.line, "suffix on a call result")
		}
		return &ECall{Fn: name, Args: args, Line: t.line}, nil
	case p.isSym("["):
		if name != "KEYS" && name != "ARGV" {
			return nil, unsupported(t.line, "indexing %s (only KEYS[i] and ARGV[i] are handled)", name)
		}
		p.pos++
		idx, err := p.expr(0)
		if err != nil {
			return nil, err
		}
		if err := p.expectSym("]"); err != nil {
			return nil, err
		}
		if p.isSym("(") || p.isSym("[") || p.isSym(".") || p.isSym(":") {
			return nil, unsupported(t.line, "suffix on an index expression")
		}
		return &EIndex{Table: name, Idx: idx, Line: t.line}, nil
	case p.isSym(":"):
		return nil, unsupported(t.line, "method call")
	case p.peek().k == tString || p.isSym("{"):
		return nil, unsupported(t.line, "call without parentheses")
	}
	if strings.Contains(name, ".") {
		return nil, unsupported(t.line, "field access %s", name)
	}
	return &EName{Name: name, Line: t.line}, nil
}
