// Package smt drives the solver processes: one incremental z3 pipe for
// feasibility and cheap obligations, and a one-shot portfolio (z3, cvc5,
// z3-new) for obligations the pipe does not decide.
package smt

import (
	"bufio"
	"context"
	"fmt"
	"io"
	"math"
	"os"
	"os/exec"
	"strconv"
	"strings"
	"sync"
	"time"

	"verif/engine/internal/term"
)

type Result int

const (
	Unknown Result = iota
	Sat
	Unsat
	Error
)

func (r Result) String() string {
	return [...]string{"unknown", "sat", "unsat", "error"}[r]
}

// ModelVal is a model value for one variable.
type ModelVal struct {
	Sort term.Sort
	U    uint64  // BV / bool
	F    float64 // FP
}

type Stats struct {
	Queries map[string]int
	Seconds map[string]float64
	mu      sync.Mutex
}

func (s *Stats) add(name string, d time.Duration) {
	s.mu.Lock()
	defer s.mu.Unlock()
	if s.Queries == nil {
		s.Queries = map[string]int{}
		s.Seconds = map[string]float64{}
	}
	s.Queries[name]++
	s.Seconds[name] += d.Seconds()
}

var Global Stats

// ---------- incremental pipe ----------

type Pipe struct {
	cmd    *exec.Cmd
	in     io.WriteCloser
	out    *bufio.Reader
	P      *term.Printer
	depth  int
	nq     int
	dead   bool
	Corrupt bool // an error line was seen: assertion stack unreliable, restart required
	Logic  string
	Log    io.Writer
	logBuf *strings.Builder
}

// NewPipe starts z3 -in. logic "" means no set-logic (ALL).
func NewPipe(logic string) (*Pipe, error) {
	z3bin := "z3-new"
	if v := os.Getenv("VERIF_Z3"); v != "" {
		z3bin = v
	}
	cmd := exec.Command(z3bin, "-in")
	in, err := cmd.StdinPipe()
	if err != nil {
		return nil, err
	}
	out, err := cmd.StdoutPipe()
	if err != nil {
		return nil, err
	}
	cmd.Stderr = os.Stderr
	if err := cmd.Start(); err != nil {
		return nil, err
	}
	p := &Pipe{cmd: cmd, in: in, out: bufio.NewReaderSize(out, 1<<20), P: term.NewPrinter()}
	if v := os.Getenv("VERIF_PIPELOG"); v != "" {
		// debugging aid: transcript of everything sent to the incremental solver
		if f, err := os.OpenFile(fmt.Sprintf("%s.%d.%d", v, os.Getpid(), time.Now().UnixNano()%1000000), os.O_CREATE|os.O_WRONLY|os.O_TRUNC, 0o644); err == nil {
			p.Log = f
		}
	}
	p.send("(set-option :global-declarations true)\n(set-option :produce-models true)\n")
	if logic != "" {
		p.send("(set-logic " + logic + ")\n")
	}
	p.Logic = logic
	return p, nil
}

func (p *Pipe) send(s string) {
	if p.Log != nil {
		io.WriteString(p.Log, s)
	}
	if _, err := io.WriteString(p.in, s); err != nil {
		p.dead = true
	}
}

func (p *Pipe) Close() {
	if p == nil || p.cmd == nil {
		return
	}
	p.in.Close()
	p.cmd.Process.Kill()
	p.cmd.Wait()
}

func (p *Pipe) Queries() int { return p.nq }

func (p *Pipe) Push() { p.send("(push 1)\n"); p.depth++ }
func (p *Pipe) Pop() {
	if p.depth > 0 {
		p.send("(pop 1)\n")
		p.depth--
	}
}
func (p *Pipe) PopAll() {
	for p.depth > 0 {
		p.Pop()
	}
}

func (p *Pipe) Assert(t *term.Term) {
	p.send(p.P.Define(t))
	p.send("(assert " + p.P.Ref(t) + ")\n")
}

func (p *Pipe) readLine() (string, error) {
	for {
		l, err := p.out.ReadString('\n')
		if err != nil {
			p.dead = true
			return "", err
		}
		l = strings.TrimSpace(l)
		if l != "" {
			return l, nil
		}
	}
}

// Check runs (check-sat) with the given timeout.
func (p *Pipe) Check(timeout time.Duration) Result {
	if p.dead {
		return Error
	}
	start := time.Now()
	p.nq++
	// The answer is delimited by an echo marker. z3's timeout timer can fire
	// late and cancel a command that FOLLOWS the timed-out check-sat (observed:
	// `(error "line N column 7: canceled")` for a (push 1)), which silently
	// corrupts the assertion stack and, without the marker, shifts every later
	// answer by one. Any error line between two markers therefore marks the pipe
	// as Corrupt; the caller must discard it (Engine.pipeQuery restarts the
	// solver and re-asserts the path condition) and must not trust this answer.
	marker := fmt.Sprintf("verif-sync-%d", p.nq)
	p.send(fmt.Sprintf("(set-option :timeout %d)\n(check-sat)\n(echo \"%s\")\n", timeout.Milliseconds(), marker))
	res, got := Error, false
	var first string
	for {
		l, err := p.readLine()
		if err != nil {
			Global.add("z3new-pipe", time.Since(start))
			return Error
		}
		if l == marker || l == "\""+marker+"\"" {
			break
		}
		if first == "" {
			first = l
		}
		switch l {
		case "sat", "unsat", "unknown":
			if !got {
				got = true
				res = map[string]Result{"sat": Sat, "unsat": Unsat, "unknown": Unknown}[l]
			}
		default:
			p.Corrupt = true
			fmt.Fprintln(os.Stderr, "z3 pipe:", l)
		}
	}
	Global.add("z3new-pipe", time.Since(start))
	if os.Getenv("VERIF_SLOWQ") != "" {
		fmt.Fprintf(os.Stderr, "Q %d ms %s\n", time.Since(start).Milliseconds(), first)
	}
	if p.Corrupt || !got {
		return Error
	}
	return res
}

// CheckAssuming: push, assert t, check, pop.
func (p *Pipe) CheckWith(t *term.Term, timeout time.Duration) Result {
	p.Push()
	p.Assert(t)
	r := p.Check(timeout)
	p.Pop()
	return r
}

// Model reads values for vars after a Sat answer (before pop).
func (p *Pipe) Model(vars []*term.Term) (map[string]ModelVal, error) {
	if len(vars) == 0 {
		return map[string]ModelVal{}, nil
	}
	var b strings.Builder
	b.WriteString("(get-value (")
	for _, v := range vars {
		b.WriteString(term.VarSym(v) + " ")
	}
	b.WriteString("))\n")
	p.send(b.String())
	txt, err := readSexp(p.out)
	if err != nil {
		p.dead = true
		return nil, err
	}
	return parseModel(txt, vars)
}

func readSexp(r *bufio.Reader) (string, error) {
	var b strings.Builder
	depth := 0
	started := false
	inBar := false
	for {
		c, err := r.ReadByte()
		if err != nil {
			return b.String(), err
		}
		b.WriteByte(c)
		if inBar {
			if c == '|' {
				inBar = false
			}
			continue
		}
		switch c {
		case '|':
			inBar = true
		case '(':
			depth++
			started = true
		case ')':
			depth--
			if started && depth == 0 {
				return b.String(), nil
			}
		}
	}
}

// ---------- s-expression parsing of models ----------

type sx struct {
	atom string
	list []*sx
}

func parseSx(s string) ([]*sx, error) {
	var stack [][]*sx
	cur := []*sx{}
	i := 0
	for i < len(s) {
		c := s[i]
		switch {
		case c == '(':
			stack = append(stack, cur)
			cur = []*sx{}
			i++
		case c == ')':
			if len(stack) == 0 {
				return nil, fmt.Errorf("unbalanced )")
			}
			l := &sx{list: cur}
			if l.list == nil {
				l.list = []*sx{}
			}
			cur = append(stack[len(stack)-1], l)
			stack = stack[:len(stack)-1]
			i++
		case c == ' ' || c == '\n' || c == '\t' || c == '\r':
			i++
		case c == '|':
			j := strings.IndexByte(s[i+1:], '|')
			if j < 0 {
				return nil, fmt.Errorf("unbalanced |")
			}
			cur = append(cur, &sx{atom: s[i : i+j+2]})
			i += j + 2
		case c == '"':
			j := strings.IndexByte(s[i+1:], '"')
			if j < 0 {
				return nil, fmt.Errorf("unbalanced \"")
			}
			cur = append(cur, &sx{atom: s[i : i+j+2]})
			i += j + 2
		default:
			j := i
			for j < len(s) && !strings.ContainsRune("() \n\t\r", rune(s[j])) {
				j++
			}
			cur = append(cur, &sx{atom: s[i:j]})
			i = j
		}
	}
	return cur, nil
}

func parseBV(a string) (uint64, int, bool) {
	if strings.HasPrefix(a, "#x") {
		v, err := strconv.ParseUint(a[2:], 16, 64)
		return v, 4 * (len(a) - 2), err == nil
	}
	if strings.HasPrefix(a, "#b") {
		v, err := strconv.ParseUint(a[2:], 2, 64)
		return v, len(a) - 2, err == nil
	}
	return 0, 0, false
}

func parseVal(e *sx, s term.Sort) (ModelVal, error) {
	mv := ModelVal{Sort: s}
	switch s.K {
	case term.KBool:
		if e.atom == "true" {
			mv.U = 1
		} else if e.atom == "false" {
			mv.U = 0
		} else {
			return mv, fmt.Errorf("bad bool %q", e.atom)
		}
		return mv, nil
	case term.KBV:
		if e.list == nil {
			v, _, ok := parseBV(e.atom)
			if !ok {
				return mv, fmt.Errorf("bad bv %q", e.atom)
			}
			mv.U = v
			return mv, nil
		}
		// (_ bv123 64)
		if len(e.list) == 3 && e.list[0].atom == "_" && strings.HasPrefix(e.list[1].atom, "bv") {
			v, err := strconv.ParseUint(e.list[1].atom[2:], 10, 64)
			if err != nil {
				return mv, err
			}
			mv.U = v
			return mv, nil
		}
		return mv, fmt.Errorf("bad bv value")
	case term.KFP:
		if e.list == nil {
			return mv, fmt.Errorf("bad fp atom %q", e.atom)
		}
		l := e.list
		if len(l) >= 2 && l[0].atom == "_" {
			switch l[1].atom {
			case "NaN":
				mv.F = math.NaN()
			case "+oo":
				mv.F = math.Inf(1)
			case "-oo":
				mv.F = math.Inf(-1)
			case "+zero":
				mv.F = 0
			case "-zero":
				mv.F = math.Copysign(0, -1)
			default:
				return mv, fmt.Errorf("bad fp special %q", l[1].atom)
			}
			return mv, nil
		}
		if len(l) == 4 && l[0].atom == "fp" {
			sg, _, ok1 := parseBV(l[1].atom)
			ex, _, ok2 := parseBV(l[2].atom)
			mn, _, ok3 := parseBV(l[3].atom)
			if !ok1 || !ok2 || !ok3 {
				return mv, fmt.Errorf("bad fp triple")
			}
			if s.W == 64 {
				mv.F = math.Float64frombits(sg<<63 | ex<<52 | mn)
			} else {
				mv.F = float64(math.Float32frombits(uint32(sg<<31 | ex<<23 | mn)))
			}
			return mv, nil
		}
		return mv, fmt.Errorf("bad fp value")
	}
	return mv, fmt.Errorf("bad sort")
}

func parseModel(txt string, vars []*term.Term) (map[string]ModelVal, error) {
	es, err := parseSx(txt)
	if err != nil {
		return nil, err
	}
	if len(es) != 1 || es[0].list == nil {
		return nil, fmt.Errorf("model: unexpected shape: %.200s", txt)
	}
	bySym := map[string]*term.Term{}
	for _, v := range vars {
		bySym[term.VarSym(v)] = v
	}
	out := map[string]ModelVal{}
	for _, pair := range es[0].list {
		if pair.list == nil || len(pair.list) != 2 {
			return nil, fmt.Errorf("model: bad pair in %.200s", txt)
		}
		sym := pair.list[0].atom
		if !strings.HasPrefix(sym, "|") {
			sym = "|" + sym + "|"
		}
		v, ok := bySym[sym]
		if !ok {
			continue
		}
		mv, err := parseVal(pair.list[1], v.Sort)
		if err != nil {
			return nil, fmt.Errorf("model value of %s: %v", sym, err)
		}
		out[v.Name] = mv
	}
	return out, nil
}

// ---------- one-shot portfolio ----------

// Script builds a standalone script deciding sat(And(asserts)).
func Script(asserts []*term.Term, vars []*term.Term) string {
	p := term.NewPrinter()
	var b strings.Builder
	b.WriteString("(set-option :produce-models true)\n(set-logic ALL)\n")
	b.WriteString(p.Define(asserts...))
	// make sure every requested var is declared even if unused
	b.WriteString(p.Define(vars...))
	for _, a := range asserts {
		b.WriteString("(assert " + p.Ref(a) + ")\n")
	}
	b.WriteString("(check-sat)\n")
	if len(vars) > 0 {
		b.WriteString("(get-value (")
		for _, v := range vars {
			b.WriteString(term.VarSym(v) + " ")
		}
		b.WriteString("))\n")
	}
	return b.String()
}

type Backend struct {
	Name string
	Args func(file string, timeout time.Duration) []string
}

var Backends = map[string]Backend{
	"z3": {"z3", func(f string, t time.Duration) []string {
		return []string{"z3", fmt.Sprintf("-T:%d", int(t.Seconds())+1), f}
	}},
	"z3-new": {"z3-new", func(f string, t time.Duration) []string {
		return []string{"z3-new", fmt.Sprintf("-T:%d", int(t.Seconds())+1), f}
	}},
	"cvc5": {"cvc5", func(f string, t time.Duration) []string {
		return []string{"cvc5", "--fp-exp", "--produce-models", fmt.Sprintf("--tlimit=%d", t.Milliseconds()), f}
	}},
}

type OneShot struct {
	Result Result
	Solver string
	Model  map[string]ModelVal
	Output string
}

func runBackend(ctx context.Context, be Backend, file string, timeout time.Duration, vars []*term.Term) OneShot {
	args := be.Args(file, timeout)
	c, cancel := context.WithTimeout(ctx, timeout+5*time.Second)
	defer cancel()
	start := time.Now()
	cmd := exec.CommandContext(c, args[0], args[1:]...)
	outB, _ := cmd.CombinedOutput()
	Global.add(be.Name, time.Since(start))
	out := string(outB)
	res := OneShot{Solver: be.Name, Output: out}
	if strings.Contains(out, "(error") {
		// get-value after unsat yields an error line; tolerate only that case
		first := strings.TrimSpace(strings.SplitN(out, "\n", 2)[0])
		if first == "unsat" && strings.Count(out, "(error") == 1 {
			res.Result = Unsat
			return res
		}
		if first == "unknown" || first == "timeout" {
			res.Result = Unknown
			return res
		}
		res.Result = Error
		return res
	}
	lines := strings.SplitN(strings.TrimSpace(out), "\n", 2)
	switch strings.TrimSpace(lines[0]) {
	case "unsat":
		res.Result = Unsat
	case "sat":
		res.Result = Sat
		if len(vars) > 0 && len(lines) > 1 {
			m, err := parseModel(lines[1], vars)
			if err != nil {
				res.Result = Error
				res.Output += "\nmodel parse: " + err.Error()
			}
			res.Model = m
		} else if len(vars) > 0 {
			res.Result = Error
		}
	default:
		res.Result = Unknown
	}
	return res
}

// Portfolio runs the script on the named back ends in parallel and returns
// the first definitive (sat/unsat) answer; Error answers are remembered and
// returned if nobody is definitive.
func Portfolio(file string, names []string, timeout time.Duration, vars []*term.Term) OneShot {
	ctx, cancel := context.WithCancel(context.Background())
	defer cancel()
	ch := make(chan OneShot, len(names))
	for _, n := range names {
		be := Backends[n]
		go func() { ch <- runBackend(ctx, be, file, timeout, vars) }()
	}
	best := OneShot{Result: Unknown}
	for range names {
		r := <-ch
		if r.Result == Sat || r.Result == Unsat {
			return r
		}
		if r.Result == Error {
			best = r
		}
	}
	return best
}

// RunAll runs every named back end to completion (for verdict diffing).
func RunAll(file string, names []string, timeout time.Duration, vars []*term.Term) []OneShot {
	out := make([]OneShot, len(names))
	var wg sync.WaitGroup
	for i, n := range names {
		wg.Add(1)
		go func(i int, n string) {
			defer wg.Done()
			out[i] = runBackend(context.Background(), Backends[n], file, timeout, vars)
		}(i, n)
	}
	wg.Wait()
	return out
}
