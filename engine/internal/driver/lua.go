package driver

// C08 part 1: the Lua scripts of lib/limit, encoded by engine/internal/lua.
// A harness of kind "lua" in harness.json names a string constant of the
// repository (read from the current source on every run), the model
// ("period" | "token") and the bounds per tier. The checks run next to the
// ordinary harness workers and contribute to the same evidence file and exit
// code: unsupported construct / solver unknown / non-reproducing model =>
// INCONCLUSIVE; only a natively reproduced deviation is a VIOLATION.

import (
	"context"
	"encoding/json"
	"fmt"
	"os"
	"os/exec"
	"path/filepath"
	"sort"
	"strings"
	"sync"
	"time"

	"verif/engine/internal/lua"
	"verif/engine/internal/smt"
)

type LuaSpec struct {
	Const string  `json:"const"` // name of the Go string constant holding the script
	Dir   string  `json:"dir"`   // directory relative to the repository root
	Model string  `json:"model"` // "period" | "token"
	Grid  [][]int `json:"grid"`  // token: (rate, burst) configurations
}

type luaQuery struct {
	h       *HarnessSpec
	enc     *lua.Enc
	prop    lua.Prop
	id      string
	file    string
	result  smt.Result
	solver  string
	seconds float64
	output  string
	model   lua.Model
	cross   bool              // thorough: also run on every back end and diff the verdicts
	others  map[string]string // back end -> verdict
}

type luaTrace struct {
	h      *HarnessSpec
	role   string // "validation" (oracle: encoder) | "fixed-history" | "witness" | "cex" (oracle: statement)
	label  string
	query  *luaQuery
	hist   *lua.History
	ok     bool
	ran    bool
	detail string
}

type luaHarnessSummary struct {
	Name        string                 `json:"harness"`
	Kind        string                 `json:"kind"`
	Const       string                 `json:"script_constant"`
	Where       string                 `json:"script_source"`
	ScriptLines int                    `json:"script_lines"`
	Params      map[string]int         `json:"params"`
	Bounds      string                 `json:"bounds"`
	Outside     string                 `json:"outside_the_claim,omitempty"`
	Encodings   []string               `json:"encodings"`
	Obligations int                    `json:"obligations"`
	Discharged  int                    `json:"discharged"`
	Witnesses   int                    `json:"witnesses_sat"`
	Invocations int                    `json:"script_invocations_encoded"`
	Branches    int                    `json:"symbolic_branches_encoded"`
	Commands    int                    `json:"redis_commands_encoded"`
	Labels      map[string]int         `json:"assert_labels"`
	Validated   int                    `json:"traces_validated_against_impl"`
	EncTraces   int                    `json:"encoder_vs_miniredis_traces_agreeing"`
	SolverS     float64                `json:"solver_seconds"`
	Extra       map[string]interface{} `json:"extra,omitempty"`
}

type luaResult struct {
	Inconclusive []string
	Violations   []string
	Obligations  int
	Discharged   int
	States       int
	Transitions  int
	Validated    int
	Samples      []interface{}
	Summaries    []*luaHarnessSummary
	Assumptions  []string
	Bounds       []string
}

const luaNumberBounds = "Lua numbers are encoded as mathematical Int/Real, exact for rate, burst, n < 2^20 and now, clock < 2^32 (every integer intermediate is proved < 2^53 by the 'exactly-modelled fragment' obligation; floor(2*fl(capacity/rate)) = floor(2*capacity/rate) because 2*capacity < 2^53 and rate < 2^53); outside these bounds nothing is claimed"

func parseLuaModel(out string) lua.Model {
	m := lua.Model{}
	i := strings.Index(out, "((")
	if i < 0 {
		return m
	}
	s := out[i+1:]
	// sequence of (name value) pairs
	for {
		s = strings.TrimLeft(s, " \n\t\r")
		if !strings.HasPrefix(s, "(") {
			break
		}
		depth, j := 0, 0
		for j = 0; j < len(s); j++ {
			if s[j] == '(' {
				depth++
			} else if s[j] == ')' {
				depth--
				if depth == 0 {
					break
				}
			}
		}
		if j >= len(s) {
			break
		}
		pair := s[1:j]
		s = s[j+1:]
		sp := strings.IndexAny(pair, " \n\t")
		if sp < 0 {
			continue
		}
		m[pair[:sp]] = strings.Join(strings.Fields(pair[sp+1:]), " ")
	}
	return m
}

func luaBackends() []string {
	if v := os.Getenv("VERIF_LUA_BACKENDS"); v != "" {
		return strings.Split(v, ",")
	}
	return []string{"z3-new", "cvc5"}
}

func runLuaQuery(q *luaQuery, extra []string, get []string, timeout time.Duration) {
	os.WriteFile(q.file, []byte("; "+q.id+"\n; "+q.prop.Label+"\n; expect "+q.prop.Expect+"\n"+q.enc.Script(extra, get)), 0o644)
	start := time.Now()
	r := smt.Portfolio(q.file, luaBackends(), timeout, nil)
	q.seconds = time.Since(start).Seconds()
	q.result, q.solver, q.output = r.Result, r.Solver, r.Output
	if r.Result == smt.Sat {
		q.model = parseLuaModel(r.Output)
	}
}

// fixed histories on which the encoder's concrete evaluation is compared with
// miniredis running the real script through the real Go API
func luaValidationHistories(model string) []*lua.History {
	if model == "period" {
		return []*lua.History{
			{ID: "val-period-1", Kind: "period", Quota: 3, Steps: []lua.Step{{Key: "a", Window: 5}, {Key: "a", Window: 5}, {Dt: 2, Key: "a", Window: 5}, {Key: "a", Window: 5}, {Dt: 3, Key: "a", Window: 5}, {Key: "a", Window: 5}}},
			{ID: "val-period-2", Kind: "period", Quota: 1, Steps: []lua.Step{{Key: "a", Window: 1}, {Key: "b", Window: 1}, {Key: "a", Window: 1}, {Dt: 1, Key: "a", Window: 1}, {Key: "b", Window: 3}}},
			{ID: "val-period-3", Kind: "period", Quota: 5, Steps: []lua.Step{{Key: "a", Window: 1}, {Key: "a", Window: 1}, {Key: "a", Window: 1}, {Key: "a", Window: 1}, {Key: "a", Window: 1}, {Key: "a", Window: 1}, {Key: "a", Window: 1}}},
			{ID: "val-period-4", Kind: "period", Quota: 2, Steps: []lua.Step{{Key: "a", Window: 10}, {Dt: 9, Key: "a", Window: 7}, {Key: "b", Window: 2}, {Dt: 1, Key: "a", Window: 4}, {Dt: 1, Key: "b", Window: 2}, {Dt: 1, Key: "b", Window: 2}}},
		}
	}
	return []*lua.History{
		{ID: "val-token-1", Kind: "token", Rate: 5, Burst: 10, Steps: []lua.Step{{Now: 100, N: 10}, {Now: 100, N: 1}, {Dt: 1, Now: 101, N: 5}, {Dt: 1, Now: 103, N: 10}, {Now: 103, N: 1}}},
		{ID: "val-token-2", Kind: "token", Rate: 3, Burst: 2, Steps: []lua.Step{{Now: 10, N: 2}, {Now: 10, N: 1}, {Dt: 1, Now: 11, N: 2}, {Now: 11, N: 3}}},
		{ID: "val-token-3", Kind: "token", Rate: 1, Burst: 1, Steps: []lua.Step{{Now: 5, N: 1}, {Now: 5, N: 1}, {Dt: 1, Now: 6, N: 1}, {Dt: 3, Now: 9, N: 2}, {Now: 9, N: 1}}},
		{ID: "val-token-4", Kind: "token", Rate: 2, Burst: 1, Steps: []lua.Step{{Now: 1700000000, N: 1}, {Now: 1700000000, N: 1}, {Dt: 1, Now: 1700000001, N: 1}}},
		{ID: "val-token-5", Kind: "token", Rate: 7, Burst: 4, Steps: []lua.Step{{Now: 0, N: 5}, {Now: 0, N: 3}, {Now: 2, N: 2}, {Dt: 5, Now: 7, N: 4}}},
	}
}

func runLuaChecks(prop, tier string, hs []*HarnessSpec, outDir string, jobs int) *luaResult {
	res := &luaResult{}
	if len(hs) == 0 {
		return res
	}
	dir := filepath.Join(outDir, "lua")
	os.MkdirAll(dir, 0o755)
	inc := func(f string, a ...interface{}) { res.Inconclusive = append(res.Inconclusive, fmt.Sprintf(f, a...)) }

	var queries []*luaQuery
	var traces []*luaTrace
	var valQueries []*luaQuery
	sums := map[string]*luaHarnessSummary{}
	encsOf := map[string][]*lua.Enc{}
	for _, h := range hs {
		ts := h.Tiers[tier]
		sum := &luaHarnessSummary{Name: h.Name, Kind: "lua", Params: ts.Params, Bounds: h.Bounds, Outside: h.Outside, Labels: map[string]int{}}
		sums[h.Name] = sum
		res.Summaries = append(res.Summaries, sum)
		if h.Lua == nil {
			inc("%s: kind lua without a \"lua\" section", h.Name)
			continue
		}
		sum.Const = h.Lua.Const
		src, where, err := lua.ExtractConst(filepath.Join(RepoRoot, h.Lua.Dir), h.Lua.Const)
		if err != nil {
			inc("%s: cannot read the script from the repository source: %v", h.Name, err)
			continue
		}
		sum.Where = where
		sum.ScriptLines = strings.Count(src, "\n") + 1
		chunk, err := lua.Parse(src)
		if err != nil {
			inc("%s: script %s (%s) is outside the handled Lua subset: %v", h.Name, h.Lua.Const, where, err)
			continue
		}
		k := ts.Params["k"]
		if k == 0 {
			k = 4
		}
		var encs []*lua.Enc
		addEnc := func(e *lua.Enc, err error) bool {
			if err != nil {
				inc("%s: script %s (%s): %v", h.Name, h.Lua.Const, where, err)
				return false
			}
			encs = append(encs, e)
			return true
		}
		ok := true
		switch h.Lua.Model {
		case "period":
			qm := int64(ts.Params["quotaMax"])
			if qm == 0 {
				qm = 6
			}
			ok = addEnc(lua.EncodePeriod(chunk, k, qm)) && addEnc(lua.EncodePeriodStep(chunk, 1<<20))
		case "token":
			grid := append([][]int{}, h.Lua.Grid...)
			if gm := ts.Params["gridMax"]; gm > 0 { // all configurations up to gridMax with 2*burst >= rate
				have := map[[2]int]bool{}
				for _, g := range grid {
					if len(g) == 2 {
						have[[2]int{g[0], g[1]}] = true
					}
				}
				for r := 1; r <= gm; r++ {
					for b := 1; b <= gm; b++ {
						if 2*b >= r && !have[[2]int{r, b}] {
							grid = append(grid, []int{r, b})
						}
					}
				}
			}
			for _, g := range grid {
				if len(g) != 2 {
					continue
				}
				if !(addEnc(lua.EncodeToken(chunk, k, int64(g[0]), int64(g[1]), 0)) && addEnc(lua.EncodeTokenStep(chunk, int64(g[0]), int64(g[1]), 0))) {
					ok = false
					break
				}
			}
			// symbolic rate/burst: bounded histories up to symMax, the inductive step up to symStepMax
			if sm := ts.Params["symMax"]; ok && sm > 0 && ts.Params["symK"] > 0 {
				ok = addEnc(lua.EncodeToken(chunk, ts.Params["symK"], 0, 0, int64(sm)))
			}
			if sm := ts.Params["symStepMax"]; ok && sm > 0 {
				ok = addEnc(lua.EncodeTokenStep(chunk, 0, 0, int64(sm)))
			}
		default:
			inc("%s: unknown lua model %q", h.Name, h.Lua.Model)
			ok = false
		}
		if !ok {
			continue
		}
		encsOf[h.Name] = encs
		for ei, e := range encs {
			sum.Encodings = append(sum.Encodings, e.Name+": "+e.Bounds)
			for _, m := range e.Machines {
				sum.Invocations += m.Invocations
				sum.Branches += m.Branches
				sum.Commands += m.Commands
			}
			if o := e.Outside(); len(o) > 0 {
				inc("%s: script %s (%s) uses constructs the encoder does not model: %s", h.Name, h.Lua.Const, where, strings.Join(o, "; "))
				continue
			}
			for pi, p := range e.Props {
				id := fmt.Sprintf("%s-e%d-%s-p%d", h.Name, ei, e.Name, pi)
				// thorough: the first encodings of each harness and the ones with symbolic rate/burst are cross-checked
				cross := tier == "thorough" && (ei < 4 || strings.Contains(e.Bounds, "symbolic in"))
				queries = append(queries, &luaQuery{h: h, enc: e, prop: p, id: id, file: filepath.Join(dir, id+".smt2"), cross: cross})
			}
		}
		// validation traces: dedicated encodings pinned to fixed histories
		for _, vh := range luaValidationHistories(h.Lua.Model) {
			var e *lua.Enc
			var err error
			if h.Lua.Model == "period" {
				e, err = lua.EncodePeriod(chunk, len(vh.Steps), 1<<20)
			} else {
				e, err = lua.EncodeToken(chunk, len(vh.Steps), vh.Rate, vh.Burst, 0)
			}
			if err != nil || len(e.Outside()) > 0 {
				continue // already reported above
			}
			q := &luaQuery{h: h, enc: e, prop: lua.Prop{Label: "validation trace " + vh.ID, Expect: "sat"}, id: h.Name + "-" + vh.ID, file: filepath.Join(dir, h.Name+"-"+vh.ID+".smt2")}
			valQueries = append(valQueries, q)
			traces = append(traces, &luaTrace{h: h, role: "validation", label: vh.ID, query: q, hist: vh})
		}
	}

	// ---- solve ----
	oblS := 60
	if tier == "thorough" {
		oblS = 600
	}
	par := jobs / len(luaBackends())
	if par < 1 {
		par = 1
	}
	sem := make(chan struct{}, par)
	var wg sync.WaitGroup
	var mu sync.Mutex
	for _, q := range queries {
		wg.Add(1)
		go func(q *luaQuery) {
			defer wg.Done()
			sem <- struct{}{}
			defer func() { <-sem }()
			tmo := time.Duration(oblS) * time.Second
			if v := q.h.Tiers[tier].OblS; v > 0 {
				tmo = time.Duration(v) * time.Second
			}
			var extra []string
			if q.prop.Expect == "unsat" {
				extra = []string{lua.Not(q.prop.Term)}
			} else {
				extra = []string{q.prop.Term}
			}
			get := append(append([]string{}, q.enc.Inputs...), q.enc.Outputs...)
			runLuaQuery(q, extra, get, tmo)
			if q.result == smt.Sat && q.prop.Expect == "unsat" && len(q.enc.Small) > 0 {
				// ask for a model that is cheap to replay; keep the first one otherwise
				q2 := *q
				q2.file = strings.TrimSuffix(q.file, ".smt2") + "-small.smt2"
				runLuaQuery(&q2, append(append([]string{}, extra...), q.enc.Small...), get, tmo)
				if q2.result == smt.Sat {
					q.model, q.file = q2.model, q2.file
				}
				q.seconds += q2.seconds
			}
			if q.cross && (q.result == smt.Sat || q.result == smt.Unsat) {
				q.others = map[string]string{}
				for i, r := range smt.RunAll(q.file, []string{"z3", "z3-new", "cvc5"}, 30*time.Second, nil) {
					q.others[[]string{"z3", "z3-new", "cvc5"}[i]] = r.Result.String()
				}
			}
			mu.Lock()
			sums[q.h.Name].SolverS += q.seconds
			mu.Unlock()
		}(q)
	}
	for i, q := range valQueries {
		wg.Add(1)
		go func(q *luaQuery, tr *luaTrace) {
			defer wg.Done()
			sem <- struct{}{}
			defer func() { <-sem }()
			runLuaQuery(q, q.enc.Pin(tr.hist), q.enc.Outputs, 60*time.Second)
		}(q, traces[i])
	}
	wg.Wait()

	var stmtTraces []*luaTrace
	for _, tr := range traces { // validation traces: expectation = encoder output
		q := tr.query
		if q.result != smt.Sat {
			inc("%s: encoder evaluation of %s gave %s (script %s)", tr.h.Name, tr.label, q.result, q.file)
			tr.hist = nil
			continue
		}
		// the same fixed history with the statement's reference semantics as the oracle
		st := *tr.hist
		st.Steps = append([]lua.Step{}, tr.hist.Steps...)
		st.ID += "-statement"
		if st.Kind == "period" {
			lua.RefPeriod(&st)
		} else {
			lua.RefToken(&st)
		}
		stmtTraces = append(stmtTraces, &luaTrace{h: tr.h, role: "fixed-history", label: tr.label + " against the statement", hist: &st})
		q.enc.Fill(tr.hist, q.model)
	}
	traces = append(traces, stmtTraces...)
	crossN, crossAgree2 := 0, 0
	for _, q := range queries {
		if q.others == nil {
			continue
		}
		crossN++
		same := 0
		for be, v := range q.others {
			if v == q.result.String() {
				same++
			} else if v == "sat" || v == "unsat" {
				inc("%s: solvers disagree on %q: %s says %s, %s says %s (script %s)", q.h.Name, q.prop.Label, q.solver, q.result, be, v, q.file)
			}
		}
		if same >= 2 {
			crossAgree2++
		}
	}
	if crossN > 0 {
		for _, sum := range res.Summaries {
			if sum.Extra == nil {
				sum.Extra = map[string]interface{}{}
			}
		}
		res.Summaries[0].Extra["cross_checked_queries_all_harnesses"] = crossN
		res.Summaries[0].Extra["confirmed_by_at_least_two_back_ends"] = crossAgree2
	}
	for _, q := range queries {
		sum := sums[q.h.Name]
		sum.Labels[q.prop.Label]++
		switch q.prop.Expect {
		case "unsat":
			res.Obligations++
			sum.Obligations++
			switch q.result {
			case smt.Unsat:
				res.Discharged++
				sum.Discharged++
			case smt.Sat:
				h := q.enc.Decode(q.model)
				tr := &luaTrace{h: q.h, role: "cex", label: q.prop.Label, query: q, hist: h}
				if h == nil {
					inc("%s: counterexample for %q (%s) cannot be turned into a replayable history", q.h.Name, q.prop.Label, q.file)
				} else {
					h.ID = q.id
				}
				traces = append(traces, tr)
			default:
				inc("%s: obligation %q not decided (%s) script=%s %s", q.h.Name, q.prop.Label, q.result, q.file, tail(q.output, 300))
			}
		case "sat":
			switch q.result {
			case smt.Sat:
				sum.Witnesses++
				if h := q.enc.Decode(q.model); h != nil {
					h.ID = q.id
					traces = append(traces, &luaTrace{h: q.h, role: "witness", label: q.prop.Label, query: q, hist: h})
				}
			case smt.Unsat:
				inc("%s: %q is unreachable (vacuous encoding) script=%s", q.h.Name, q.prop.Label, q.file)
			default:
				inc("%s: %q not decided (%s) script=%s", q.h.Name, q.prop.Label, q.result, q.file)
			}
		}
	}

	// ---- native run of all concrete histories through the real Go API + miniredis ----
	var hists []*lua.History
	for _, tr := range traces {
		if tr.hist != nil {
			hists = append(hists, tr.hist)
		}
	}
	if len(hists) > 0 {
		verdicts, out, err := LuaNativeRun(hists, filepath.Join(RepoRoot, hs[0].Lua.Dir), dir)
		if err != nil {
			inc("lua native run failed: %v\n%s", err, tail(out, 1500))
		}
		for _, tr := range traces {
			if tr.hist == nil {
				continue
			}
			if v, ok := verdicts[tr.hist.ID]; ok {
				tr.ran, tr.ok, tr.detail = true, v.OK, v.Detail
			}
		}
	}
	for _, tr := range traces {
		if tr.hist == nil {
			continue
		}
		sum := sums[tr.h.Name]
		if !tr.ran {
			inc("%s: %s %q was not run natively", tr.h.Name, tr.role, tr.label)
			continue
		}
		if tr.role == "validation" { // expectation = the encoder's own concrete evaluation
			if tr.ok {
				res.Validated++
				sum.Validated++
				sum.EncTraces++
			} else {
				inc("%s: the encoder disagrees with the implementation (miniredis through the real Go API) on %s: %s — encoder error, not a finding", tr.h.Name, tr.label, tr.detail)
			}
			continue
		}
		// expectation = the statement's reference semantics: a native deviation is a finding, whatever produced the history
		var model lua.Model
		script := ""
		if tr.query != nil {
			model, script = tr.query.model, tr.query.file
		}
		cexFile := filepath.Join(dir, tr.hist.ID+".cex.json")
		b, _ := json.MarshalIndent(map[string]interface{}{"harness": tr.h.Name, "kind": "lua", "label": tr.label, "role": tr.role, "lua_history": tr.hist, "values": model, "script": script}, "", " ")
		switch {
		case !tr.ok:
			os.WriteFile(cexFile, b, 0o644)
			res.Validated++
			sum.Validated++
			keep := filepath.Join(VerifRoot, "out", "violations", prop)
			os.MkdirAll(keep, 0o755)
			dst := filepath.Join(keep, filepath.Base(cexFile))
			os.WriteFile(dst, b, 0o644)
			res.Violations = append(res.Violations, fmt.Sprintf("VIOLATION property=%s replay=%s", prop, dst))
			if len(res.Violations) <= 6 {
				hb, _ := json.Marshal(tr.hist)
				fmt.Printf("  harness=%s %s=%q native=%q history=%s\n", tr.h.Name, tr.role, tr.label, tr.detail, hb)
			}
		case tr.role == "cex":
			os.WriteFile(cexFile, b, 0o644)
			inc("%s: solver counterexample for %q (%s) did not reproduce natively: the real limiter behaves as the statement demands on this history — encoding mismatch, not a finding", tr.h.Name, tr.label, cexFile)
		default:
			res.Validated++
			sum.Validated++
		}
	}

	// ---- evidence ----
	for _, sum := range res.Summaries {
		res.States += sum.Invocations
		res.Transitions += sum.Branches + sum.Commands
	}
	nS := 0
	for _, tr := range traces {
		if tr.hist != nil && nS < 4 && (tr.role != "validation" || nS < 2) {
			nS++
			res.Samples = append(res.Samples, map[string]interface{}{"harness": tr.h.Name, "role": tr.role, "label": tr.label, "native": map[string]interface{}{"ran": tr.ran, "as_expected": tr.ok, "detail": tr.detail}, "history": tr.hist})
		}
	}
	for _, q := range queries {
		if len(res.Samples) < 7 && q.prop.Expect == "unsat" {
			res.Samples = append(res.Samples, map[string]interface{}{"harness": q.h.Name, "obligation": q.prop.Label, "encoding": q.enc.Name, "bounds": q.enc.Bounds, "script": q.file, "result": q.result.String(), "solver": q.solver, "seconds": q.seconds})
		}
	}
	seen := map[string]bool{}
	for _, h := range hs {
		for _, a := range h.Assumes {
			if !seen[a] {
				seen[a] = true
				res.Assumptions = append(res.Assumptions, a)
			}
		}
		for _, e := range encsOf[h.Name] {
			res.Bounds = append(res.Bounds, h.Name+" "+e.Name+": "+e.Bounds)
		}
	}
	res.Bounds = append(res.Bounds, luaNumberBounds)
	res.Assumptions = append(res.Assumptions,
		"Lua encoder (engine/internal/lua): "+luaNumberBounds,
		"Redis model: one script invocation is atomic; a key whose expiry instant is <= the server clock is absent; SETEX sets expiry = clock+ttl and fails for ttl <= 0; INCRBY on an absent key creates it without expiry and keeps the expiry of an existing one; EXPIRE sets expiry = clock+ttl on an existing key; GET of a missing key is Lua false; server clock in whole seconds",
		"Lua->Redis->Go reply conversion: number => integer reply (int64), true => 1, false/nil => redis.Nil, error => Go error",
		"the encoder's concrete evaluation is compared on fixed histories with miniredis (gopher-lua) running the real script through the real PeriodLimit/TokenLimiter API on every run")
	sort.Strings(res.Bounds)
	return res
}

func luaExplanation(lr *luaResult) string {
	if len(lr.Summaries) == 0 {
		return ""
	}
	return "Lua checks: states += script invocations symbolically executed (each covers every input within the bounds), transitions += symbolic branches and Redis commands encoded; one SMT query per (encoding x assertion), obligations/discharged count the assertions, witnesses are expected-sat vacuity guards; traces_validated_against_impl += concrete histories (the encoder's concrete evaluation of fixed histories, the same histories against the statement's reference semantics, witness models, counterexamples) run through the real PeriodLimit.Take/TokenLimiter.AllowN against miniredis"
}

type luaVerdict struct {
	ID     string `json:"id"`
	OK     bool   `json:"ok"`
	Detail string `json:"detail"`
}

// LuaNativeRun runs the histories through the real PeriodLimit.Take /
// TokenLimiter.AllowN against miniredis in a generated in-package test
// (injected by overlay; nothing is written to the repository).
func LuaNativeRun(hists []*lua.History, pkgDir, outDir string) (map[string]luaVerdict, string, error) {
	tmp, err := os.MkdirTemp(outDir, "native-")
	if err != nil {
		return nil, "", err
	}
	defer os.RemoveAll(tmp)
	hb, _ := json.MarshalIndent(hists, "", " ")
	hfile := filepath.Join(tmp, "histories.json")
	os.WriteFile(hfile, hb, 0o644)
	os.WriteFile(filepath.Join(outDir, "last-native-histories.json"), hb, 0o644)
	tfile := filepath.Join(tmp, "zz_verif_lua_replay_test.go")
	os.WriteFile(tfile, []byte(luaReplayTest), 0o644)
	ovJSON, _ := json.Marshal(map[string]interface{}{"Replace": map[string]string{filepath.Join(pkgDir, "zz_verif_lua_replay_test.go"): tfile}})
	ovFile := filepath.Join(tmp, "overlay.json")
	os.WriteFile(ovFile, ovJSON, 0o644)
	ctx, cancel := context.WithTimeout(context.Background(), 400*time.Second)
	defer cancel()
	cmd := exec.CommandContext(ctx, "go", "test", "-v", "-vet=off", "-count=1", "-run", "^TestVerifLuaReplay$", "-overlay", ovFile, "-timeout", "300s", ".")
	cmd.Dir = pkgDir
	cmd.Env = append(GoEnv(filepath.Join(tmp, "gomod")), "VERIF_LUA_HISTORIES="+hfile)
	outB, _ := cmd.CombinedOutput()
	out := string(outB)
	verdicts := map[string]luaVerdict{}
	for _, line := range strings.Split(out, "\n") {
		i := strings.Index(line, "VERIF-LUA-RESULT ")
		if i < 0 {
			continue
		}
		var v luaVerdict
		if json.Unmarshal([]byte(line[i+len("VERIF-LUA-RESULT "):]), &v) == nil {
			verdicts[v.ID] = v
		}
	}
	if len(verdicts) != len(hists) {
		return verdicts, out, fmt.Errorf("native test reported %d of %d histories", len(verdicts), len(hists))
	}
	return verdicts, out, nil
}

// luaReplayFile re-runs the history of a lua counterexample file.
func luaReplayFile(prop string, spec *PropertySpec, cexPath string, raw []byte) int {
	var c struct {
		Harness string       `json:"harness"`
		Label   string       `json:"label"`
		Hist    *lua.History `json:"lua_history"`
	}
	if err := json.Unmarshal(raw, &c); err != nil || c.Hist == nil {
		fmt.Fprintln(os.Stderr, "bad lua counterexample file")
		return 2
	}
	dir := "lib/limit"
	for i := range spec.Harnesses {
		if spec.Harnesses[i].Name == c.Harness && spec.Harnesses[i].Lua != nil {
			dir = spec.Harnesses[i].Lua.Dir
		}
	}
	outDir := filepath.Join(VerifRoot, "out", prop, "lua")
	os.MkdirAll(outDir, 0o755)
	verdicts, out, err := LuaNativeRun([]*lua.History{c.Hist}, filepath.Join(RepoRoot, dir), outDir)
	fmt.Println(out)
	if err != nil {
		fmt.Fprintln(os.Stderr, err)
		return 2
	}
	v := verdicts[c.Hist.ID]
	if !v.OK {
		fmt.Printf("replay verdict: fail (%s)\nVIOLATION property=%s replay=%s\n", v.Detail, prop, cexPath)
		return 1
	}
	fmt.Println("replay verdict: pass")
	return 0
}

const luaReplayTest = `package limit

// generated by gosym (C08 Lua checks): runs concrete histories through the
// real PeriodLimit.Take / TokenLimiter.AllowN against miniredis and compares
// with the expectation recorded in the history file.

import (
	"encoding/json"
	"fmt"
	"os"
	"strconv"
	"sync/atomic"
	"testing"
	"time"

	"github.com/alicebob/miniredis/v2"
	"github.com/gotid/god/lib/store/redis"
)

type verifLuaStep struct {
	Dt           int64  ` + "`json:\"dt\"`" + `
	Key          string ` + "`json:\"key\"`" + `
	Window       int64  ` + "`json:\"window\"`" + `
	Now          int64  ` + "`json:\"now\"`" + `
	N            int64  ` + "`json:\"n\"`" + `
	ExpectCode   int    ` + "`json:\"expect_code\"`" + `
	ExpectTTL    int64  ` + "`json:\"expect_ttl\"`" + `
	ExpectGrant  bool   ` + "`json:\"expect_grant\"`" + `
	ExpectTokens int64  ` + "`json:\"expect_tokens\"`" + `
}

type verifLuaHistory struct {
	ID     string         ` + "`json:\"id\"`" + `
	Kind   string         ` + "`json:\"kind\"`" + `
	Quota  int64          ` + "`json:\"quota\"`" + `
	Rate   int64          ` + "`json:\"rate\"`" + `
	Burst  int64          ` + "`json:\"burst\"`" + `
	Oracle string         ` + "`json:\"oracle\"`" + `
	Steps  []verifLuaStep ` + "`json:\"steps\"`" + `
}

func verifLuaTTL(s *miniredis.Miniredis, key string) int64 {
	if !s.Exists(key) {
		return -2
	}
	d := s.TTL(key)
	if d == 0 {
		return -1
	}
	return int64(d / time.Second)
}

func verifLuaPeriod(h verifLuaHistory) (bool, string) {
	s, err := miniredis.Run()
	if err != nil {
		return false, "miniredis: " + err.Error()
	}
	defer s.Close()
	store := redis.New(s.Addr())
	ok, detail := true, ""
	for i, st := range h.Steps {
		if st.Dt > 0 {
			s.FastForward(time.Duration(st.Dt) * time.Second)
		}
		l := NewPeriodLimit(int(st.Window), int(h.Quota), store, "verif:")
		code, err := l.Take(st.Key)
		if err != nil {
			code = -1
		}
		ttl := verifLuaTTL(s, "verif:"+st.Key)
		if code != st.ExpectCode || ttl != st.ExpectTTL {
			if ok {
				detail = fmt.Sprintf("take %d on key %q: code=%d ttl=%d, expected code=%d ttl=%d (err=%v)", i+1, st.Key, code, ttl, st.ExpectCode, st.ExpectTTL, err)
			}
			ok = false
		}
	}
	return ok, detail
}

func verifLuaToken(h verifLuaHistory) (bool, string) {
	s, err := miniredis.Run()
	if err != nil {
		return false, "miniredis: " + err.Error()
	}
	defer s.Close()
	store := redis.New(s.Addr())
	l := NewTokenLimiter(int(h.Rate), int(h.Burst), store, "verif")
	ok, detail := true, ""
	for i, st := range h.Steps {
		if st.Dt > 0 {
			s.FastForward(time.Duration(st.Dt) * time.Second)
		}
		got := l.AllowN(time.Unix(st.Now, 0), int(st.N))
		fellBack := atomic.LoadUint32(&l.redisAlive) == 0
		tokens := int64(-1)
		if v, err := s.Get("{verif}.tokens"); err == nil {
			if f, err := strconv.ParseFloat(v, 64); err == nil && f == float64(int64(f)) {
				tokens = int64(f)
			} else {
				tokens = -3
			}
		}
		ttl := verifLuaTTL(s, "{verif}.tokens")
		ttl2 := verifLuaTTL(s, "{verif}.ts")
		bad := ""
		switch {
		case st.ExpectCode == -1:
			if !fellBack {
				bad = "expected the script to fail"
			}
		case fellBack:
			bad = "the script failed on a healthy Redis (limiter fell back to the in-process bucket)"
		case got != st.ExpectGrant:
			bad = "grant differs"
		case st.ExpectTokens >= 0 && tokens != st.ExpectTokens:
			bad = "stored tokens differ"
		case st.ExpectTTL > 0 && (ttl != st.ExpectTTL || ttl2 != st.ExpectTTL):
			bad = "TTL differs"
		case st.ExpectTTL == 0 && (ttl < 1 || ttl2 < 1):
			bad = "bucket key without positive TTL"
		}
		if bad != "" {
			if ok {
				detail = fmt.Sprintf("request %d (now=%d n=%d): %s: granted=%v tokens=%d ttl=%d/%d, expected granted=%v tokens=%d ttl=%d", i+1, st.Now, st.N, bad, got, tokens, ttl, ttl2, st.ExpectGrant, st.ExpectTokens, st.ExpectTTL)
			}
			ok = false
			if fellBack {
				break
			}
		}
	}
	return ok, detail
}

func TestVerifLuaReplay(t *testing.T) {
	data, err := os.ReadFile(os.Getenv("VERIF_LUA_HISTORIES"))
	if err != nil {
		t.Fatal(err)
	}
	var hs []verifLuaHistory
	if err := json.Unmarshal(data, &hs); err != nil {
		t.Fatal(err)
	}
	for _, h := range hs {
		var ok bool
		var detail string
		if h.Kind == "period" {
			ok, detail = verifLuaPeriod(h)
		} else {
			ok, detail = verifLuaToken(h)
		}
		b, _ := json.Marshal(map[string]interface{}{"id": h.ID, "ok": ok, "detail": detail})
		fmt.Printf("VERIF-LUA-RESULT %s\n", b)
		if !ok {
			t.Errorf("VERIF-ASSERT-FAILED %s (%s oracle): %s", h.ID, h.Oracle, detail)
		}
	}
}
`
