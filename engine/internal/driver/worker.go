package driver

import (
	"encoding/json"
	"fmt"
	"os"
	"path/filepath"
	"sort"
	"time"

	"verif/engine/internal/interp"
	"verif/engine/internal/smt"
	"verif/engine/internal/term"
)

type WorkerResult struct {
	Harness      string             `json:"harness"`
	Case         int                `json:"case"`
	Error        string             `json:"error,omitempty"`
	Paths        int                `json:"paths"`
	Infeasible   int                `json:"infeasible_paths"`
	Forks        int                `json:"forks"`
	MaxDepth     int                `json:"max_decision_depth"`
	Obligations  int                `json:"obligations"`
	Discharged   int                `json:"discharged"`
	Trivial      int                `json:"trivially_true_asserts"`
	AbsImplied   int                `json:"asserts_implied_by_path_facts"`
	PipeRestarts int                `json:"solver_pipe_restarts_after_error,omitempty"`
	Undecided    []interp.Undecided `json:"undecided,omitempty"`
	Cexs         []string           `json:"cex_files,omitempty"`
	CexLabels    []string           `json:"cex_labels,omitempty"`
	Witnesses    []string           `json:"witness_files,omitempty"`
	Reach        map[string]int     `json:"reach"`
	Inconclusive []string           `json:"inconclusive,omitempty"`
	Samples      []interp.Sample    `json:"samples,omitempty"`
	Funcs        []string           `json:"functions_encoded"`
	Stubs        []string           `json:"stubs_hit"`
	Havoc        []string           `json:"havoc_hit"`
	Intrinsics   []string           `json:"intrinsics_hit"`
	UnwindMax    int                `json:"unwind_max_seen"`
	AssertLabels map[string]int     `json:"assert_labels"`
	SolverQ      map[string]int     `json:"solver_queries"`
	SolverS      map[string]float64 `json:"solver_seconds"`
	Terms        int                `json:"terms"`
	LoadS        float64            `json:"load_s"`
	WallS        float64            `json:"wall_s"`
}

func keys(m map[string]bool) []string {
	var ks []string
	for k := range m {
		ks = append(ks, k)
	}
	sort.Strings(ks)
	return ks
}

// RunWorker explores one harness case and returns its result.
func RunWorker(prop, hname, tier string, caseIdx int, outDir string, verbose bool, pin map[string]interface{}) *WorkerResult {
	start := time.Now()
	res := &WorkerResult{Harness: hname, Case: caseIdx, Reach: map[string]int{}}
	spec, hdir, err := LoadSpec(prop)
	if err != nil {
		res.Error = err.Error()
		return res
	}
	var h *HarnessSpec
	for i := range spec.Harnesses {
		if spec.Harnesses[i].Name == hname {
			h = &spec.Harnesses[i]
		}
	}
	if h == nil {
		res.Error = "no such harness " + hname
		return res
	}
	ts, ok := h.Tiers[tier]
	if !ok {
		res.Error = "no tier " + tier
		return res
	}
	l, err := Load(h, hdir, filepath.Join(outDir, fmt.Sprintf("gomod-%s-c%d", hname, caseIdx)))
	if err != nil {
		res.Error = "load: " + err.Error()
		return res
	}
	res.LoadS = time.Since(start).Seconds()
	cfg := h.Config(l, ts)
	in := interp.New(l.Prog, l.Pkg, cfg)
	backends := h.Backends
	if len(backends) == 0 {
		backends = []string{"cvc5", "z3"}
	}
	oblS := ts.OblS
	if oblS == 0 {
		oblS = 60
		if tier == "thorough" {
			oblS = 600
		}
	}
	tmo := ts.TimeoutS
	if tmo == 0 {
		tmo = 240
		if tier == "thorough" {
			tmo = 1500
		}
	}
	cases := ts.Cases
	if cases == 0 {
		cases = 1
	}
	feasT, pipeT := 2*time.Second, 10*time.Second
	if ts.PipeS > 0 {
		pipeT = time.Duration(ts.PipeS) * time.Second
	}
	if ts.FeasMs2 > 0 {
		feasT = time.Duration(ts.FeasMs2) * time.Millisecond
	}
	if ts.FeasMs > 0 {
		feasT = time.Duration(ts.FeasMs) * time.Millisecond
	}
	if ts.PipeMs > 0 {
		pipeT = time.Duration(ts.PipeMs) * time.Millisecond
	}
	opt := interp.Options{
		Harness: hname, OutDir: outDir, Case: caseIdx, Cases: cases,
		FeasTimeout: feasT, PipeTimeout: pipeT, PortTimeout: time.Duration(oblS) * time.Second,
		Backends: backends, MaxPaths: ts.MaxPaths, Deadline: start.Add(time.Duration(tmo) * time.Second),
		Verbose: verbose, Pin: pin, Witnesses: witnessCount(h, tier, caseIdx),
	}
	if ts.PipeMs > 0 {
		opt.PipeTimeout = time.Duration(ts.PipeMs) * time.Millisecond
	}
	if ts.FeasMs > 0 {
		opt.FeasTimeout = time.Duration(ts.FeasMs) * time.Millisecond
	}
	eng, err := interp.NewEngine(opt)
	if err != nil {
		res.Error = "solver: " + err.Error()
		return res
	}
	defer eng.Close()
	eng.Explore(in, l.Entry)
	res.Paths, res.Infeasible, res.Forks, res.MaxDepth = eng.Paths, eng.Infeasible, eng.Forks, eng.MaxDepth
	res.Obligations, res.Discharged, res.Trivial = eng.Obligations, eng.Discharged, eng.Trivial
	res.AbsImplied = eng.AbsDischarged
	res.PipeRestarts = eng.PipeRestarts
	res.Undecided = eng.Undecided
	for _, c := range eng.Cexs {
		res.Cexs = append(res.Cexs, c.File)
		res.CexLabels = append(res.CexLabels, c.Label)
	}
	res.Witnesses = eng.Witnesses
	res.Reach = eng.Reach
	res.Inconclusive = eng.InconclusiveList()
	res.Samples = eng.Samples
	res.Funcs = keys(in.FuncsSeen)
	res.Stubs = keys(in.StubsHit)
	res.Havoc = keys(in.HavocHit)
	res.Intrinsics = keys(in.IntrHit)
	res.UnwindMax = in.UnwindMax
	res.AssertLabels = eng.AssertLabels
	res.SolverQ = smt.Global.Queries
	res.SolverS = smt.Global.Seconds
	res.Terms = term.NumTerms()
	res.WallS = time.Since(start).Seconds()
	return res
}

func WriteResult(res *WorkerResult, file string) error {
	os.MkdirAll(filepath.Dir(file), 0o755)
	b, err := json.MarshalIndent(res, "", " ")
	if err != nil {
		return err
	}
	return os.WriteFile(file, b, 0o644)
}

var _ = fmt.Sprint

func witnessCount(h *HarnessSpec, tier string, k int) int {
	if h.Replay == "none" {
		return 0
	}
	if tier == "thorough" {
		return 2
	}
	if k == 0 {
		return 1
	}
	return 0
}
