package driver

import (
	"fmt"
	"go/ast"
	"go/parser"
	"go/token"
	"os"
	"path/filepath"
	"sort"
	"strings"
)

type hookImport struct{ Alias, Path string }

type StubHooks struct {
	Imports []hookImport
	Assigns []string
}

type stubTarget struct {
	pkg, recv, name string
	ptr             bool
}

func parseTarget(t string) (stubTarget, error) {
	var st stubTarget
	if strings.HasPrefix(t, "(") {
		end := strings.Index(t, ").")
		if end < 0 {
			return st, fmt.Errorf("bad stub target %q", t)
		}
		r := t[1:end]
		st.name = t[end+2:]
		if strings.HasPrefix(r, "*") {
			st.ptr = true
			r = r[1:]
		}
		i := strings.LastIndex(r, ".")
		if i < 0 {
			return st, fmt.Errorf("bad stub target %q", t)
		}
		st.pkg, st.recv = r[:i], r[i+1:]
		return st, nil
	}
	i := strings.LastIndex(t, ".")
	if i < 0 {
		return st, fmt.Errorf("bad stub target %q", t)
	}
	st.pkg, st.name = t[:i], t[i+1:]
	return st, nil
}

func recvTypeName(e ast.Expr) (string, bool) {
	ptr := false
	if s, ok := e.(*ast.StarExpr); ok {
		ptr = true
		e = s.X
	}
	if id, ok := e.(*ast.Ident); ok {
		return id.Name, ptr
	}
	return "", ptr
}

// GenStubs rewrites (in the overlay) every repo file that defines a stub
// target: the original function is renamed X__verifOrig and a trampoline X
// calls a package-level hook variable when set. It returns the imports and
// assignments the generated replay test needs to install the harness stubs.
func GenStubs(h *HarnessSpec, stubs map[string]string, ov map[string][]byte) (*StubHooks, error) {
	hooks := &StubHooks{}
	var targets []string
	for t := range stubs {
		if h.isModelTarget(t) {
			continue // symbolic-world model of a non-repository function: the native run calls the real one
		}
		targets = append(targets, t)
	}
	sort.Strings(targets)
	aliases := map[string]string{}
	for _, t := range targets {
		st, err := parseTarget(t)
		if err != nil {
			return nil, err
		}
		var dir string
		switch {
		case h.AdHoc() && st.pkg == h.Pkg:
			dir = h.PkgDir() // ad-hoc package: the target lives in the harness's own directory
		case strings.HasPrefix(st.pkg, RepoModule):
			dir = filepath.Join(RepoRoot, strings.TrimPrefix(st.pkg, RepoModule))
		default:
			return nil, fmt.Errorf("stub target %s is outside the repository: no native trampoline possible", t)
		}
		ents, err := os.ReadDir(dir)
		if err != nil {
			return nil, err
		}
		found := false
		for _, e := range ents {
			n := e.Name()
			if !strings.HasSuffix(n, ".go") || strings.HasSuffix(n, "_test.go") {
				continue
			}
			path := filepath.Join(dir, n)
			src, ok := ov[path]
			if !ok {
				src, err = os.ReadFile(path)
				if err != nil {
					return nil, err
				}
			}
			fset := token.NewFileSet()
			f, err := parser.ParseFile(fset, path, src, parser.SkipObjectResolution)
			if err != nil {
				return nil, err
			}
			for _, d := range f.Decls {
				fd, ok := d.(*ast.FuncDecl)
				if !ok || fd.Name.Name != st.name || fd.Body == nil {
					continue
				}
				if st.recv == "" {
					if fd.Recv != nil {
						continue
					}
				} else {
					if fd.Recv == nil || len(fd.Recv.List) != 1 {
						continue
					}
					rn, ptr := recvTypeName(fd.Recv.List[0].Type)
					if rn != st.recv || ptr != st.ptr {
						continue
					}
				}
				if fd.Type.TypeParams != nil {
					return nil, fmt.Errorf("stub target %s is generic", t)
				}
				text := func(e ast.Node) string {
					return string(src[fset.Position(e.Pos()).Offset:fset.Position(e.End()).Offset])
				}
				var params, callArgs []string
				pi := 0
				if fd.Type.Params != nil {
					for _, fl := range fd.Type.Params.List {
						cnt := len(fl.Names)
						if cnt == 0 {
							cnt = 1
						}
						for k := 0; k < cnt; k++ {
							pn := fmt.Sprintf("vp%d", pi)
							pi++
							tt := text(fl.Type)
							params = append(params, pn+" "+tt)
							if _, ok := fl.Type.(*ast.Ellipsis); ok {
								callArgs = append(callArgs, pn+"...")
							} else {
								callArgs = append(callArgs, pn)
							}
						}
					}
				}
				var results []string
				if fd.Type.Results != nil {
					for _, fl := range fd.Type.Results.List {
						cnt := len(fl.Names)
						if cnt == 0 {
							cnt = 1
						}
						for k := 0; k < cnt; k++ {
							results = append(results, text(fl.Type))
						}
					}
				}
				resText := ""
				if len(results) > 0 {
					resText = " (" + strings.Join(results, ", ") + ")"
				}
				ret := ""
				if len(results) > 0 {
					ret = "return "
				}
				hookName := "VerifHook_" + st.name
				var tramp string
				if st.recv == "" {
					tramp = fmt.Sprintf("\nvar %s func(%s)%s\n\nfunc %s(%s)%s {\n\tif %s != nil {\n\t\t%s%s(%s)\n\t\treturn\n\t}\n\t%s%s__verifOrig(%s)\n}\n",
						hookName, strings.Join(params, ", "), resText,
						st.name, strings.Join(params, ", "), resText,
						hookName, ret, hookName, strings.Join(callArgs, ", "),
						ret, st.name, strings.Join(callArgs, ", "))
				} else {
					hookName = "VerifHook_" + st.recv + "_" + st.name
					rt := text(fd.Recv.List[0].Type)
					hp := append([]string{"vr " + rt}, params...)
					ha := append([]string{"vr"}, callArgs...)
					tramp = fmt.Sprintf("\nvar %s func(%s)%s\n\nfunc (vr %s) %s(%s)%s {\n\tif %s != nil {\n\t\t%s%s(%s)\n\t\treturn\n\t}\n\t%svr.%s__verifOrig(%s)\n}\n",
						hookName, strings.Join(hp, ", "), resText,
						rt, st.name, strings.Join(params, ", "), resText,
						hookName, ret, hookName, strings.Join(ha, ", "),
						ret, st.name, strings.Join(callArgs, ", "))
				}
				if len(results) > 0 {
					// "return f(...)\n return" is invalid; drop the bare returns
					tramp = strings.ReplaceAll(tramp, ")\n\t\treturn\n\t}", ")\n\t}")
				}
				off := fset.Position(fd.Name.End()).Offset
				ns := string(src[:off]) + "__verifOrig" + string(src[off:]) + tramp
				ov[path] = []byte(ns)
				// assignment for the replay test
				ref := hookName
				if st.pkg != h.Pkg {
					al, ok := aliases[st.pkg]
					if !ok {
						al = fmt.Sprintf("vh%d", len(aliases))
						aliases[st.pkg] = al
						hooks.Imports = append(hooks.Imports, hookImport{al, st.pkg})
					}
					ref = al + "." + hookName
				}
				hooks.Assigns = append(hooks.Assigns, fmt.Sprintf("%s = %s", ref, stubs[t]))
				found = true
			}
			if found {
				break
			}
		}
		if !found {
			return nil, fmt.Errorf("stub target %s not found in %s", t, dir)
		}
	}
	return hooks, nil
}
