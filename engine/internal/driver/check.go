package driver

func CheckMain(args []string) int  { return 2 }
func ReplayMain(args []string) int { return 2 }
