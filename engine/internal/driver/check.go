package driver

import (
	"bytes"
	"context"
	"encoding/json"
	"flag"
	"fmt"
	"os"
	"os/exec"
	"path/filepath"
	"sort"
	"strconv"
	"strings"
	"sync"
	"time"

	"verif/engine/internal/smt"
)

type KnownFinding struct {
	Property string                 `json:"property"`
	Harness  string                 `json:"harness"`
	Label    string                 `json:"label"`
	Where    map[string]interface{} `json:"where,omitempty"` // required cex values
	Status   string                 `json:"status"`          // "known" | "fixed"
	Commit   string                 `json:"commit,omitempty"`
	What     string                 `json:"what"`
}

func loadKnown() []KnownFinding {
	b, err := os.ReadFile(filepath.Join(VerifRoot, "known_findings.json"))
	if err != nil {
		return nil
	}
	var k []KnownFinding
	json.Unmarshal(b, &k)
	return k
}

type cexFile struct {
	Harness string                 `json:"harness"`
	Label   string                 `json:"label"`
	Site    string                 `json:"site"`
	Case    int                    `json:"case"`
	Values  map[string]interface{} `json:"values"`
	Params  map[string]int         `json:"params"`
	Trace   []string               `json:"trace"`
	SchedForks int                 `json:"sched_forks"`
}

func readCex(path string) (*cexFile, error) {
	b, err := os.ReadFile(path)
	if err != nil {
		return nil, err
	}
	var c cexFile
	if err := json.Unmarshal(b, &c); err != nil {
		return nil, err
	}
	return &c, nil
}

func matchesKnown(k KnownFinding, prop string, c *cexFile) bool {
	if k.Status != "known" || k.Property != prop || k.Harness != c.Harness || k.Label != c.Label {
		return false
	}
	for key, want := range k.Where {
		if fmt.Sprint(c.Values[key]) != fmt.Sprint(want) {
			return false
		}
	}
	return true
}

type harnessSummary struct {
	Name         string             `json:"harness"`
	Entry        string             `json:"entry"`
	Package      string             `json:"package"`
	Cases        int                `json:"cases"`
	Params       map[string]int     `json:"params"`
	Unwind       int                `json:"unwind_bound"`
	Bounds       string             `json:"bounds"`
	Outside      string             `json:"outside_the_claim,omitempty"`
	Paths        int                `json:"paths"`
	Infeasible   int                `json:"infeasible_paths"`
	Forks        int                `json:"forks"`
	Obligations  int                `json:"obligations"`
	Discharged   int                `json:"discharged"`
	Trivial      int                `json:"asserts_true_by_constant_folding"`
	AbsImplied   int                `json:"asserts_implied_by_interval_or_order_facts"`
	Reach        map[string]int     `json:"reach_tags"`
	AssertLabels map[string]int     `json:"assert_labels"`
	UnwindMax    int                `json:"unwind_max_seen"`
	WallS        float64            `json:"wall_s"`
	Replays      int                `json:"native_replays"`
	Witnesses    int                `json:"witness_paths_validated_natively"`
}

type replayTask struct {
	h       *HarnessSpec
	hs      *harnessSummary
	k       int
	file    string
	witness bool
	out     string
	verdict string
}

func CheckMain(args []string) int {
	fs := flag.NewFlagSet("check", flag.ExitOnError)
	tier := fs.String("tier", "", "quick|thorough")
	only := fs.String("only", "", "comma-separated harness names")
	defJobs := 16
	if v, err := strconv.Atoi(os.Getenv("VERIF_JOBS")); err == nil && v > 0 {
		defJobs = v
	}
	jobs := fs.Int("j", defJobs, "parallel workers")
	noEvidence := fs.Bool("no-evidence", false, "")
	var prop string
	if len(args) > 0 && !strings.HasPrefix(args[0], "-") {
		prop = args[0]
		args = args[1:]
	}
	fs.Parse(args)
	if prop == "" && fs.NArg() > 0 {
		prop = fs.Arg(0)
	}
	if prop == "" {
		fmt.Fprintln(os.Stderr, "check: property id required")
		return 2
	}
	t := *tier
	if v := os.Getenv("VERIF_TIER"); v != "" && t == "" {
		t = v
	}
	if t == "" {
		t = "quick"
	}
	seed := 0
	if v := os.Getenv("VERIF_SEED"); v != "" {
		seed, _ = strconv.Atoi(v)
	}
	start := time.Now()
	spec, hdir, err := LoadSpec(prop)
	if err != nil {
		fmt.Fprintln(os.Stderr, "check:", err)
		return 2
	}
	outDir := filepath.Join(VerifRoot, "out", prop)
	os.RemoveAll(outDir)
	os.MkdirAll(outDir, 0o755)
	self, _ := os.Executable()

	onlySet := map[string]bool{}
	for _, n := range strings.Split(*only, ",") {
		if n != "" {
			onlySet[n] = true
		}
	}
	type job struct {
		h    *HarnessSpec
		k    int
		file string
	}
	var jobsL []job
	var active []*HarnessSpec
	var luaHs []*HarnessSpec // kind "lua": handled by runLuaChecks (lua.go), not by engine workers
	for i := range spec.Harnesses {
		h := &spec.Harnesses[i]
		if len(onlySet) > 0 && !onlySet[h.Name] {
			continue
		}
		ts, ok := h.Tiers[t]
		if !ok || ts.Skip {
			continue
		}
		if h.Kind == "lua" {
			luaHs = append(luaHs, h)
			continue
		}
		active = append(active, h)
		n := ts.Cases
		if n == 0 {
			n = 1
		}
		for k := 0; k < n; k++ {
			jobsL = append(jobsL, job{h, k, filepath.Join(outDir, fmt.Sprintf("%s-c%d.result.json", h.Name, k))})
		}
	}
	luaCh := make(chan *luaResult, 1)
	luaJobs := *jobs
	if len(jobsL) > 0 && len(luaHs) > 0 { // share the cores with the engine workers
		luaJobs = (*jobs + 1) / 2
	}
	go func() { luaCh <- runLuaChecks(prop, t, luaHs, outDir, luaJobs) }()
	sem := make(chan struct{}, *jobs)
	var wg sync.WaitGroup
	for _, j := range jobsL {
		wg.Add(1)
		go func(j job) {
			defer wg.Done()
			sem <- struct{}{}
			defer func() { <-sem }()
			ts := j.h.Tiers[t]
			tmo := ts.TimeoutS
			if tmo == 0 {
				tmo = 240
				if t == "thorough" {
					tmo = 1500
				}
			}
			ctx, cancel := context.WithTimeout(context.Background(), time.Duration(tmo+120)*time.Second)
			defer cancel()
			cmd := exec.CommandContext(ctx, self, "worker", "--prop", prop, "--harness", j.h.Name, "--tier", t,
				"--case", strconv.Itoa(j.k), "--out", j.file, "--outdir", outDir)
			cmd.Env = append(os.Environ(), "VERIF_ROOT="+VerifRoot, "VERIF_REPO="+RepoRoot)
			var stderr bytes.Buffer
			cmd.Stderr = &stderr
			cmd.Stdout = &stderr
			if err := cmd.Run(); err != nil {
				r := &WorkerResult{Harness: j.h.Name, Case: j.k, Error: fmt.Sprintf("worker failed: %v: %s", err, tail(stderr.String(), 2000)), Reach: map[string]int{}}
				WriteResult(r, j.file)
			}
		}(j)
	}
	wg.Wait()

	// ---- collect ----
	known := loadKnown()
	var inconclusive []string
	var violations []string
	var knownLines []string
	sums := map[string]*harnessSummary{}
	funcs := map[string]bool{}
	stubs := map[string]bool{}
	havoc := map[string]bool{}
	intr := map[string]bool{}
	var samples []interface{}
	solverQ := map[string]int{}
	solverS := map[string]float64{}
	totalObl, totalDis, totalPaths, totalForks, totalReplays, totalWitness := 0, 0, 0, 0, 0, 0
	var tasks []*replayTask
	for _, h := range active {
		ts := h.Tiers[t]
		n := ts.Cases
		if n == 0 {
			n = 1
		}
		hs := &harnessSummary{Name: h.Name, Entry: h.Entry, Package: h.Pkg, Cases: n, Params: ts.Params, Unwind: ts.Unwind,
			Bounds: h.Bounds, Outside: h.Outside, Reach: map[string]int{}, AssertLabels: map[string]int{}}
		sums[h.Name] = hs
		for k := 0; k < n; k++ {
			file := filepath.Join(outDir, fmt.Sprintf("%s-c%d.result.json", h.Name, k))
			b, err := os.ReadFile(file)
			if err != nil {
				inconclusive = append(inconclusive, fmt.Sprintf("%s case %d: no result", h.Name, k))
				continue
			}
			var r WorkerResult
			if err := json.Unmarshal(b, &r); err != nil {
				inconclusive = append(inconclusive, fmt.Sprintf("%s case %d: bad result", h.Name, k))
				continue
			}
			if r.Error != "" {
				inconclusive = append(inconclusive, fmt.Sprintf("%s case %d: %s", h.Name, k, r.Error))
				continue
			}
			hs.Paths += r.Paths
			hs.Infeasible += r.Infeasible
			hs.Forks += r.Forks
			hs.Obligations += r.Obligations
			hs.Discharged += r.Discharged
			hs.Trivial += r.Trivial
			hs.AbsImplied += r.AbsImplied
			hs.WallS += r.WallS
			if r.UnwindMax > hs.UnwindMax {
				hs.UnwindMax = r.UnwindMax
			}
			for tag, c := range r.Reach {
				hs.Reach[tag] += c
			}
			for l, c := range r.AssertLabels {
				hs.AssertLabels[l] += c
			}
			for _, f := range r.Funcs {
				funcs[f] = true
			}
			for _, f := range r.Stubs {
				stubs[f] = true
			}
			for _, f := range r.Havoc {
				havoc[f] = true
			}
			for _, f := range r.Intrinsics {
				intr[f] = true
			}
			for q, c := range r.SolverQ {
				solverQ[q] += c
			}
			for q, c := range r.SolverS {
				solverS[q] += c
			}
			if len(samples) < 6 {
				for _, s := range r.Samples {
					if len(samples) < 6 {
						samples = append(samples, map[string]interface{}{"harness": h.Name, "case": k, "path": s})
					}
				}
			}
			for _, u := range r.Undecided {
				inconclusive = append(inconclusive, fmt.Sprintf("%s case %d: obligation %q not decided (%s) script=%s", h.Name, k, u.Label, u.Why, u.Script))
			}
			for _, m := range r.Inconclusive {
				inconclusive = append(inconclusive, fmt.Sprintf("%s case %d: %s", h.Name, k, m))
			}
			for _, wf := range r.Witnesses {
				if h.Replay != "none" {
					tasks = append(tasks, &replayTask{h: h, hs: hs, k: k, file: wf, witness: true})
				}
			}
			for _, cf := range r.Cexs {
				tasks = append(tasks, &replayTask{h: h, hs: hs, k: k, file: cf})
			}
		}
		for _, tag := range h.Reach {
			if hs.Reach[tag] == 0 {
				inconclusive = append(inconclusive, fmt.Sprintf("%s: reach tag %q never reached (vacuous harness)", h.Name, tag))
			}
		}
		totalObl += hs.Obligations
		totalDis += hs.Discharged
		totalPaths += hs.Paths
		totalForks += hs.Forks
	}

	// ---- native replays (parallel) ----
	{
		rsem := make(chan struct{}, 8)
		var rwg sync.WaitGroup
		for _, tk := range tasks {
			if tk.h.Replay == "none" {
				tk.verdict = "unreplayed"
				continue
			}
			rwg.Add(1)
			go func(tk *replayTask) {
				defer rwg.Done()
				rsem <- struct{}{}
				defer func() { <-rsem }()
				want := "fail"
				if tk.witness {
					want = "pass"
				}
				tk.out, tk.verdict = NativeReplayWant(tk.h, hdir, tk.file, outDir, want)
			}(tk)
		}
		rwg.Wait()
	}
	for _, tk := range tasks {
		h, hs, k := tk.h, tk.hs, tk.k
		if tk.witness {
			hs.Witnesses++
			totalWitness++
			if tk.verdict != "pass" {
				inconclusive = append(inconclusive, fmt.Sprintf("%s case %d: witness path %s did not pass natively (%s): symbolic and native worlds disagree\n%s", h.Name, k, tk.file, tk.verdict, tail(tk.out, 1500)))
			}
			continue
		}
		cf := tk.file
		c, err := readCex(cf)
		if err != nil {
			inconclusive = append(inconclusive, "unreadable cex "+cf)
			continue
		}
		if tk.verdict != "unreplayed" {
			hs.Replays++
			totalReplays++
		}
		verdict := tk.verdict
		if verdict != "fail" && verdict != "unreplayed" && c.SchedForks > 0 {
			// The failing path took non-default scheduling choices (sched_fork
			// harness). A native run uses the Go scheduler and cannot be forced
			// onto that interleaving, so native replay cannot confirm it; the
			// preemption points are synchronisation operations only, i.e. a
			// subset of what the real scheduler may do. Reported as a violation,
			// marked schedule-dependent.
			verdict = "fail"
			fmt.Printf("  note: schedule-dependent counterexample (%d preemptions), found by deterministic execution of the real code's SSA; the native run (%s) cannot force the schedule\n", c.SchedForks, tk.verdict)
		}
		switch verdict {
		case "fail":
			isKnown := false
			for _, kf := range known {
				if matchesKnown(kf, prop, c) {
					isKnown = true
					knownLines = append(knownLines, fmt.Sprintf("KNOWN-FINDING: property=%s %s [%s] %s", prop, h.Name, c.Label, kf.What))
				}
			}
			if !isKnown {
				keep := filepath.Join(VerifRoot, "out", "violations", prop)
				os.MkdirAll(keep, 0o755)
				dst := filepath.Join(keep, filepath.Base(cf))
				if b, err := os.ReadFile(cf); err == nil {
					os.WriteFile(dst, b, 0o644)
				}
				violations = append(violations, fmt.Sprintf("VIOLATION property=%s replay=%s", prop, dst))
				fmt.Printf("  harness=%s assertion=%q site=%s values=%v\n", h.Name, c.Label, c.Site, c.Values)
			}
		case "unreplayed":
			inconclusive = append(inconclusive, fmt.Sprintf("%s: solver counterexample for %q (%s) has no native replay configured", h.Name, c.Label, cf))
		default:
			inconclusive = append(inconclusive, fmt.Sprintf("%s: solver counterexample for %q (%s) did not reproduce natively (%s): encoding/stub mismatch, not a finding\n%s", h.Name, c.Label, cf, tk.verdict, tail(tk.out, 1500)))
		}
	}

	// ---- Lua script checks (C08) ----
	lr := <-luaCh
	inconclusive = append(inconclusive, lr.Inconclusive...)
	violations = append(violations, lr.Violations...)
	totalObl += lr.Obligations
	totalDis += lr.Discharged
	totalPaths += lr.States
	totalForks += lr.Transitions
	totalReplays += lr.Validated
	samples = append(lr.Samples, samples...)
	for q, c := range smt.Global.Queries {
		solverQ[q] += c
	}
	for q, c := range smt.Global.Seconds {
		solverS[q] += c
	}

	sort.Strings(knownLines)
	knownLines = uniq(knownLines)
	violations = uniq(violations)
	for _, l := range knownLines {
		fmt.Println(l)
	}
	for _, l := range violations {
		fmt.Println(l)
	}
	inconclusive = uniq(inconclusive)
	for i, l := range inconclusive {
		if i >= 12 {
			fmt.Printf("INCONCLUSIVE: … and %d more (see evidence file)\n", len(inconclusive)-i)
			break
		}
		if len(l) > 1800 {
			l = l[:1800] + "…"
		}
		fmt.Println("INCONCLUSIVE:", l)
	}
	wall := time.Since(start).Seconds()

	if !*noEvidence && len(onlySet) == 0 {
		var hsl []*harnessSummary
		for _, h := range active {
			hsl = append(hsl, sums[h.Name])
		}
		if len(samples) == 0 {
			samples = append(samples, "no completed path")
		}
		var assumptions []string
		seenA := map[string]bool{}
		for _, h := range active {
			for _, a := range h.Assumes {
				if !seenA[a] {
					seenA[a] = true
					assumptions = append(assumptions, a)
				}
			}
		}
		for _, s := range sortedKeys(stubs) {
			assumptions = append(assumptions, "stub: "+s)
		}
		for _, s := range sortedKeys(havoc) {
			assumptions = append(assumptions, "havoc (result unconstrained, effects ignored): "+s)
		}
		for _, s := range sortedKeys(intr) {
			assumptions = append(assumptions, "engine intrinsic model: "+s)
		}
		assumptions = append(assumptions, lr.Assumptions...)
		assumptions = append(assumptions, "go/ssa lowering, the gosym interpreter and the SMT solvers (z3 4.8.12, cvc5 1.0, z3 5.1.0) are trusted; counterexamples are only reported after native replay")
		ev := map[string]interface{}{
			"property_id": prop,
			"tier":        t,
			"seed":        seed,
			"level":       "model_checking",
			"coverage": map[string]interface{}{
				"states":                        max(totalPaths, 0),
				"transitions":                   max(totalForks, 0),
				"traces_validated_against_impl": totalReplays + totalWitness,
				"samples":                       samples,
				"obligations":                   totalObl,
				"discharged":                    totalDis,
				"explanation":                   "states = symbolic execution paths completed (each covers every input satisfying its path condition); transitions = fork decisions; obligations = SMT queries pc∧¬assert; discharged = answered unsat. traces_validated_against_impl = witness models of completed paths and counterexamples re-run natively (go test -overlay) against the real code",
				"exhaustive":                    len(inconclusive) == 0,
				"harnesses":                     hsl,
				"lua_checks":                    lr.Summaries,
				"lua_bounds":                    lr.Bounds,
				"lua_explanation":               luaExplanation(lr),
				"functions_encoded":             sortedKeys(funcs),
				"solver_queries":                solverQ,
				"solver_seconds":                solverS,
				"inconclusive":                  inconclusive,
				"known_findings":                knownLines,
			},
			"assumptions": assumptions,
			"wall_s":      wall,
			"violations":  len(violations),
		}
		os.MkdirAll(filepath.Join(VerifRoot, "evidence"), 0o755)
		b, _ := json.MarshalIndent(ev, "", " ")
		os.WriteFile(filepath.Join(VerifRoot, "evidence", prop+".json"), b, 0o644)
	}
	active = append(active, luaHs...)
	fmt.Printf("check %s tier=%s: harnesses=%d paths=%d obligations=%d discharged=%d violations=%d known=%d inconclusive=%d wall=%.1fs\n",
		prop, t, len(active), totalPaths, totalObl, totalDis, len(violations), len(knownLines), len(inconclusive), wall)
	if len(violations) > 0 {
		return 1
	}
	if len(inconclusive) > 0 {
		return 2
	}
	return 0
}

func uniq(s []string) []string {
	var out []string
	seen := map[string]bool{}
	for _, x := range s {
		if !seen[x] {
			seen[x] = true
			out = append(out, x)
		}
	}
	return out
}

func sortedKeys(m map[string]bool) []string {
	var ks []string
	for k := range m {
		ks = append(ks, k)
	}
	sort.Strings(ks)
	return ks
}

func tail(s string, n int) string {
	if len(s) > n {
		return "…" + s[len(s)-n:]
	}
	return s
}

// NativeReplay runs the harness natively with the values of the cex file.
// verdict: "fail" (assertion failed / panicked natively), "pass", "rejected"
// (an assumption did not hold natively), "error".
func NativeReplay(h *HarnessSpec, hdir, cexPath, outDir string) (string, string) {
	return NativeReplayWant(h, hdir, cexPath, outDir, "")
}

// NativeReplayWant retries (with longer native yields) until the wanted
// verdict is seen, at most 3 times: native runs use real goroutines and
// short sleeps for verifYield, which a loaded machine can starve.
func NativeReplayWant(h *HarnessSpec, hdir, cexPath, outDir, want string) (string, string) {
	out, verdict := "", ""
	for i, scale := range []string{"1", "5", "25"} {
		out, verdict = nativeReplayOnce(h, hdir, cexPath, outDir, scale)
		if want == "" || verdict == want || verdict == "error" && i > 0 {
			break
		}
	}
	return out, verdict
}

func nativeReplayOnce(h *HarnessSpec, hdir, cexPath, outDir, yieldScale string) (string, string) {
	ov, pkgName, stubs, err := h.Overlay(hdir, "native")
	if err != nil {
		return err.Error(), "error"
	}
	tmp, err := os.MkdirTemp(outDir, "replay-")
	if err != nil {
		return err.Error(), "error"
	}
	defer os.RemoveAll(tmp)
	// stub trampolines for the native world
	hooks, err := GenStubs(h, stubs, ov)
	if err != nil {
		return "stubgen: " + err.Error(), "error"
	}
	var test strings.Builder
	fmt.Fprintf(&test, "package %s\n\nimport (\n\t\"testing\"\n", pkgName)
	for _, imp := range hooks.Imports {
		fmt.Fprintf(&test, "\t%s %q\n", imp.Alias, imp.Path)
	}
	fmt.Fprintf(&test, ")\n\nfunc TestVerifReplay(t *testing.T) {\n")
	for _, as := range hooks.Assigns {
		fmt.Fprintf(&test, "\t%s\n", as)
	}
	fmt.Fprintf(&test, "\tif verifRunNative(%s) {\n\t\tt.Fatal(\"VERIF-REPLAY-FAILED\")\n\t}\n}\n", h.Entry)
	ov[filepath.Join(h.PkgDir(), "zz_verif_replay_test.go")] = []byte(test.String())
	repl := map[string]string{}
	i := 0
	for virt, content := range ov {
		i++
		real := filepath.Join(tmp, fmt.Sprintf("f%d_%s", i, filepath.Base(virt)))
		if err := os.WriteFile(real, content, 0o644); err != nil {
			return err.Error(), "error"
		}
		repl[virt] = real
	}
	ovJSON, _ := json.Marshal(map[string]interface{}{"Replace": repl})
	ovFile := filepath.Join(tmp, "overlay.json")
	os.WriteFile(ovFile, ovJSON, 0o644)
	ctx, cancel := context.WithTimeout(context.Background(), 300*time.Second)
	defer cancel()
	targets := []string{"."}
	runDir := h.PkgDir()
	if h.AdHoc() {
		// ad-hoc package: explicit file list (sources, overlay files, the replay test) from the repository root
		runDir = RepoRoot
		if targets, err = h.AdHocFiles(ov); err != nil {
			return err.Error(), "error"
		}
	}
	cmd := exec.CommandContext(ctx, "go", append([]string{"test", "-v", "-vet=off", "-count=1", "-run", "^TestVerifReplay$", "-overlay", ovFile, "-timeout", "120s"}, targets...)...)
	cmd.Dir = runDir
	abs, _ := filepath.Abs(cexPath)
	cmd.Env = append(GoEnv(filepath.Join(tmp, "gomod")), "VERIF_MODEL="+abs, "VERIF_YIELD_SCALE="+yieldScale)
	outB, _ := cmd.CombinedOutput()
	out := string(outB)
	switch {
	case strings.Contains(out, "VERIF-ASSERT-FAILED"), strings.Contains(out, "VERIF-PANIC"):
		return out, "fail"
	case strings.Contains(out, "VERIF-MODEL-REJECTED"):
		return out, "rejected"
	case strings.Contains(out, "VERIF-NATIVE-PASS"):
		return out, "pass"
	case strings.Contains(out, "panic:") && strings.Contains(out, "FAIL"):
		return out, "fail"
	case strings.Contains(out, "fatal error: all goroutines are asleep"), strings.Contains(out, "test timed out"):
		return out, "fail"
	}
	return out, "error"
}

func ReplayMain(args []string) int {
	if len(args) < 2 {
		fmt.Fprintln(os.Stderr, "usage: gosym replay <PROP> <cex.json>")
		return 2
	}
	prop, cexPath := args[0], args[1]
	spec, hdir, err := LoadSpec(prop)
	if err != nil {
		fmt.Fprintln(os.Stderr, err)
		return 2
	}
	if raw, err := os.ReadFile(cexPath); err == nil && bytes.Contains(raw, []byte("\"lua_history\"")) {
		return luaReplayFile(prop, spec, cexPath, raw)
	}
	c, err := readCex(cexPath)
	if err != nil {
		fmt.Fprintln(os.Stderr, err)
		return 2
	}
	for i := range spec.Harnesses {
		h := &spec.Harnesses[i]
		if h.Name == c.Harness {
			outDir := filepath.Join(VerifRoot, "out", prop)
			os.MkdirAll(outDir, 0o755)
			out, verdict := NativeReplay(h, hdir, cexPath, outDir)
			fmt.Println(out)
			fmt.Println("replay verdict:", verdict)
			if verdict == "fail" {
				fmt.Printf("VIOLATION property=%s replay=%s\n", prop, cexPath)
				return 1
			}
			return 0
		}
	}
	fmt.Fprintln(os.Stderr, "harness not found:", c.Harness)
	return 2
}
