// Package driver loads harnesses, runs engine workers, replays
// counterexamples natively and writes evidence.
package driver

import (
	"encoding/json"
	"fmt"
	"os"
	"path/filepath"
	"regexp"
	"sort"
	"strings"
	"sync"

	"golang.org/x/tools/go/packages"
	"golang.org/x/tools/go/ssa"
	"golang.org/x/tools/go/ssa/ssautil"

	"verif/engine/internal/interp"
)

var RepoRoot = "/repo"

const RepoModule = "github.com/gotid/god"

var VerifRoot = "/verif"

type TierSpec struct {
	Cases    int            `json:"cases"`
	Unwind   int            `json:"unwind"`
	Params   map[string]int `json:"params"`
	MaxPaths int            `json:"max_paths"`
	TimeoutS int            `json:"timeout_s"`
	OblS     int            `json:"obligation_timeout_s"`
	PipeMs   int            `json:"pipe_timeout_ms"`        // incremental-pipe cap per obligation (default 10000); small for FP-heavy harnesses
	FeasMs   int            `json:"feas_timeout_ms"`        // incremental-pipe cap per feasibility query (default 2000)
	PipeS    int            `json:"pipe_timeout_s"`         // incremental-pipe timeout per obligation (default 10); lower it for FP-heavy harnesses that only the portfolio decides
	FeasMs2  int            `json:"feasibility_timeout_ms"` // same as feas_timeout_ms
	Skip     bool           `json:"skip"`
}

type HarnessSpec struct {
	Name       string              `json:"name"`
	Pkg        string              `json:"pkg"`
	Dir        string              `json:"dir"` // optional: directory (relative to /repo) for ad-hoc packages
	Files      []string            `json:"files"`
	Entry      string              `json:"entry"`
	Execute    []string            `json:"execute"`
	Havoc      []string            `json:"havoc"`
	InlineGo   []string            `json:"inline_go"`
	MayBlock   []string            `json:"may_remain_blocked"`
	NoInit     []string            `json:"no_init"`
	PermuteMap bool                `json:"permute_maps"`
	SchedFork  int                 `json:"sched_fork"` // >0: fork on scheduling choices, at most this many non-default choices per path
	Tiers      map[string]TierSpec `json:"tiers"`
	Reach      []string            `json:"reach"`
	Replay     string              `json:"replay"` // "native" (default) | "none"
	Backends   []string            `json:"backends"`
	Bounds     string              `json:"bounds"` // human-readable statement of the bound
	Outside    string              `json:"outside"`
	Assumes    []string            `json:"assumptions"`
	Kind       string              `json:"kind"` // "" (gosym harness) | "lua" (script encoded by engine/internal/lua, see lua.go)
	Lua        *LuaSpec            `json:"lua"`
	NativeStub []string            `json:"native_stub_files"` // extra overlay files for replay (relative to harness dir) "repo/rel/path.go=file"

	// targets of //verif:model directives: redirected in the symbolic world only
	// (standard-library functions: no native trampoline; the native run uses the real one)
	modelTargets map[string]bool
}

type PropertySpec struct {
	Property  string        `json:"property"`
	Harnesses []HarnessSpec `json:"harnesses"`
}

func LoadSpec(prop string) (*PropertySpec, string, error) {
	dir := filepath.Join(VerifRoot, "harness", prop)
	b, err := os.ReadFile(filepath.Join(dir, "harness.json"))
	if err != nil {
		return nil, dir, err
	}
	var s PropertySpec
	if err := json.Unmarshal(b, &s); err != nil {
		return nil, dir, fmt.Errorf("harness.json: %v", err)
	}
	return &s, dir, nil
}

func (h *HarnessSpec) PkgDir() string {
	if h.Dir != "" {
		return filepath.Join(RepoRoot, h.Dir)
	}
	rel := strings.TrimPrefix(h.Pkg, RepoModule)
	return filepath.Join(RepoRoot, rel)
}

var pkgClause = regexp.MustCompile(`(?m)^package\s+(\w+)`)
var stubDirective = regexp.MustCompile(`(?m)^//verif:stub\s+(\S+)\s*=>\s*(\S+)`)
var modelDirective = regexp.MustCompile(`(?m)^//verif:model\s+(\S+)\s*=>\s*(\S+)`)

// Overlay builds the overlay (virtual path -> content) for the harness files
// plus the runtime file of the given world ("symbolic" or "native").
func (h *HarnessSpec) Overlay(hdir, world string) (map[string][]byte, string, map[string]string, error) {
	ov := map[string][]byte{}
	stubs := map[string]string{}
	pkgName := ""
	for _, f := range h.Files {
		src, err := os.ReadFile(filepath.Join(hdir, f))
		if err != nil {
			return nil, "", nil, err
		}
		m := pkgClause.FindSubmatch(src)
		if m == nil {
			return nil, "", nil, fmt.Errorf("%s: no package clause", f)
		}
		pkgName = string(m[1])
		for _, d := range stubDirective.FindAllSubmatch(src, -1) {
			stubs[string(d[1])] = string(d[2])
		}
		for _, d := range modelDirective.FindAllSubmatch(src, -1) {
			stubs[string(d[1])] = string(d[2])
			h.setModelTarget(string(d[1]))
		}
		base := strings.TrimSuffix(filepath.Base(f), ".go")
		ov[filepath.Join(h.PkgDir(), "zz_verif_"+base+".go")] = src
	}
	tmpl, err := os.ReadFile(filepath.Join(VerifRoot, "rt", "rt_"+world+".go.tmpl"))
	if err != nil {
		return nil, "", nil, err
	}
	rt := strings.Replace(string(tmpl), "package PKGNAME", "package "+pkgName, 1)
	ov[filepath.Join(h.PkgDir(), "zz_verif_rt.go")] = []byte(rt)
	return ov, pkgName, stubs, nil
}

// modelTargetsMu guards HarnessSpec.modelTargets: Overlay is called from the
// parallel native replays of one harness.
var modelTargetsMu sync.Mutex

func (h *HarnessSpec) setModelTarget(t string) {
	modelTargetsMu.Lock()
	defer modelTargetsMu.Unlock()
	if h.modelTargets == nil {
		h.modelTargets = map[string]bool{}
	}
	h.modelTargets[t] = true
}

func (h *HarnessSpec) isModelTarget(t string) bool {
	modelTargetsMu.Lock()
	defer modelTargetsMu.Unlock()
	return h.modelTargets[t]
}

// AdHoc reports whether the harness's package lives outside the repository's
// main module (a nested module such as tools/god whose own go.mod cannot be
// resolved offline).  Such a directory is loaded, and replayed, as an ad-hoc
// "command-line-arguments" package: explicit file list, go command run from
// the repository root so that imports resolve against the root go.mod.
func (h *HarnessSpec) AdHoc() bool { return h.Dir != "" }

// AdHocFiles lists the package's non-test source files plus the overlay files
// injected into its directory (sorted; overlay-only files included).
func (h *HarnessSpec) AdHocFiles(ov map[string][]byte) ([]string, error) {
	dir := h.PkgDir()
	ents, err := os.ReadDir(dir)
	if err != nil {
		return nil, err
	}
	seen := map[string]bool{}
	var files []string
	for _, e := range ents {
		n := e.Name()
		if e.IsDir() || !strings.HasSuffix(n, ".go") || strings.HasSuffix(n, "_test.go") {
			continue
		}
		f := filepath.Join(dir, n)
		seen[f] = true
		files = append(files, f)
	}
	for f := range ov {
		if filepath.Dir(f) == dir && !seen[f] {
			files = append(files, f)
		}
	}
	sort.Strings(files)
	return files, nil
}

type Loaded struct {
	Prog    *ssa.Program
	Pkg     *ssa.Package
	Entry   *ssa.Function
	Stubs   map[string]string
	PkgName string
}

// GoEnv returns the environment for go commands run against the repository.
// The repository's go.mod/go.sum are copied into modDir and passed with
// -modfile, so that go commands (which, under -mod=mod, rewrite go.mod when an
// injected harness imports an indirect dependency directly) never touch /repo.
func GoEnv(modDir string) []string {
	env := os.Environ()
	flags := "-mod=mod"
	if modDir != "" {
		os.MkdirAll(modDir, 0o755)
		ok := true
		for _, f := range []string{"go.mod", "go.sum"} {
			b, err := os.ReadFile(filepath.Join(RepoRoot, f))
			if err != nil || os.WriteFile(filepath.Join(modDir, f), b, 0o644) != nil {
				ok = false
			}
		}
		if ok {
			flags += " -modfile=" + filepath.Join(modDir, "go.mod")
		}
	}
	env = append(env, "GOFLAGS="+flags, "GOPROXY=off", "GOSUMDB=off", "GOTOOLCHAIN=local", "GOWORK=off")
	return env
}

func Load(h *HarnessSpec, hdir, modDir string) (*Loaded, error) {
	ov, pkgName, stubs, err := h.Overlay(hdir, "symbolic")
	if err != nil {
		return nil, err
	}
	cfg := &packages.Config{
		Mode:    packages.LoadAllSyntax,
		Dir:     h.PkgDir(),
		Overlay: ov,
		Env:     GoEnv(modDir),
		Tests:   false,
	}
	patterns := []string{"."}
	if h.AdHoc() {
		cfg.Dir = RepoRoot
		if patterns, err = h.AdHocFiles(ov); err != nil {
			return nil, err
		}
	}
	pkgs, err := packages.Load(cfg, patterns...)
	if err != nil {
		return nil, err
	}
	if len(pkgs) == 0 {
		return nil, fmt.Errorf("no packages loaded")
	}
	var errs []string
	packages.Visit(pkgs, nil, func(p *packages.Package) {
		for _, e := range p.Errors {
			errs = append(errs, e.Error())
		}
	})
	if len(errs) > 0 {
		if len(errs) > 15 {
			errs = errs[:15]
		}
		return nil, fmt.Errorf("package errors:\n  %s", strings.Join(errs, "\n  "))
	}
	prog, spkgs := ssautil.AllPackages(pkgs, ssa.InstantiateGenerics)
	sp := spkgs[0]
	if sp == nil {
		return nil, fmt.Errorf("no SSA package for %s", pkgs[0].PkgPath)
	}
	sp.Build()
	entry := sp.Func(h.Entry)
	if entry == nil {
		return nil, fmt.Errorf("entry %s not found in %s", h.Entry, sp.Pkg.Path())
	}
	return &Loaded{Prog: prog, Pkg: sp, Entry: entry, Stubs: stubs, PkgName: pkgName}, nil
}

func (h *HarnessSpec) Config(l *Loaded, tier TierSpec) *interp.Config {
	unwind := tier.Unwind
	if unwind == 0 {
		unwind = 64
	}
	exec := append([]string{RepoModule + "/..."}, h.Execute...)
	schedFork := h.SchedFork
	if v, ok := tier.Params["sched_fork"]; ok {
		schedFork = v // per-tier override
	}
	return &interp.Config{
		HarnessPkg: l.Pkg.Pkg.Path(),
		Execute:    exec,
		Stubs:      l.Stubs,
		Havoc:      h.Havoc,
		InlineGo:   h.InlineGo,
		Unwind:     unwind,
		Params:     tier.Params,
		MayBlock:   h.MayBlock,
		PermuteMap: h.PermuteMap,
		NoInit:     h.NoInit,
		SchedFork:  schedFork,
	}
}
