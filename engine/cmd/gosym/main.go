package main

import (
	"runtime/pprof"
	"encoding/json"
	"flag"
	"fmt"
	"os"

	"verif/engine/internal/driver"
)

func usage() {
	fmt.Fprintln(os.Stderr, `usage:
  gosym check <PROP> [--tier quick|thorough] [--only H1,H2] [--keep]
  gosym worker --prop P --harness H --tier T --case K --out FILE
  gosym replay <PROP> <cex.json>`)
	os.Exit(2)
}

func main() {
	if len(os.Args) < 2 {
		usage()
	}
	if v := os.Getenv("VERIF_ROOT"); v != "" {
		driver.VerifRoot = v
	}
	if v := os.Getenv("VERIF_REPO"); v != "" {
		driver.RepoRoot = v
	}
	switch os.Args[1] {
	case "worker":
		fs := flag.NewFlagSet("worker", flag.ExitOnError)
		prop := fs.String("prop", "", "")
		h := fs.String("harness", "", "")
		tier := fs.String("tier", "quick", "")
		k := fs.Int("case", 0, "")
		out := fs.String("out", "", "")
		outDir := fs.String("outdir", "", "")
		verbose := fs.Bool("v", false, "")
		pinFile := fs.String("pin", "", "cex json: run the interpreter with these concrete values")
		prof := fs.String("cpuprofile", "", "")
		fs.Parse(os.Args[2:])
		if *prof != "" {
			f, _ := os.Create(*prof)
			pprof.StartCPUProfile(f)
			defer pprof.StopCPUProfile()
		}
		od := *outDir
		if od == "" {
			od = driver.VerifRoot + "/out/" + *prop
		}
		var pin map[string]interface{}
		if *pinFile != "" {
			b, err := os.ReadFile(*pinFile)
			if err != nil {
				fmt.Fprintln(os.Stderr, err)
				os.Exit(2)
			}
			var c struct {
				Values map[string]interface{} `json:"values"`
			}
			json.Unmarshal(b, &c)
			pin = c.Values
		}
		res := driver.RunWorker(*prop, *h, *tier, *k, od, *verbose, pin)
		if *out != "" {
			if err := driver.WriteResult(res, *out); err != nil {
				fmt.Fprintln(os.Stderr, err)
				os.Exit(2)
			}
		} else {
			b, _ := json.MarshalIndent(res, "", " ")
			fmt.Println(string(b))
		}
	case "check":
		os.Exit(driver.CheckMain(os.Args[2:]))
	case "replay":
		os.Exit(driver.ReplayMain(os.Args[2:]))
	default:
		usage()
	}
}
